#!/bin/sh
# Offline setup: puts icontract beside the repository's interpreter (git-ignored .deps)
set -e
cd "$(dirname "$0")"
if [ ! -d .deps/icontract ]; then
  /venv/bin/pip install -q --no-index --find-links /opt/veriftools/wheels --target .deps icontract
fi
/venv/bin/python -c "import sys; sys.path.append('.deps'); import icontract, numpy, casadi, networkx; print('setup ok', icontract.__version__)"
