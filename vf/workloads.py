"""Shared workloads that drive ``Network.step`` (the monitors installed by the
calling check decide)."""
import math

from vf import desc as D
from vf import drive
from vf import gen as G
from vf import refmodel as R


def shapes_cycle():
    # every forced shape class appears at a fixed rate
    order = ["chain", "bifurcation", "merge", "crossing", "ramp", "cycle2", "cycle", "ring",
             "single_seg", "lanedrop", "lanegain", "random", "random", "random", "random", "allkinds"]
    i = 0
    while True:
        yield order[i % len(order)]
        i += 1


USER_KINDS = {"prob": 0.0}  # set by a check whose oracle knows the user-defined kinds (vf/userkinds.py)


def numpy_param_forms(desc, rng, len1_capacity=False):
    """Numeric element parameters held as NumPy values instead of Python floats (read from a .mat / .npy
    file): 0-d arrays or numpy.float64 for any parameter, length-1 arrays for turn rates.  Only for
    networks that are stepped with the NumPy engine.  Returns a param_override for desc.build."""
    import numpy as np

    po = {}
    for l in desc["links"]:
        for a in ("lam", "L", "rho_max", "rho_crit", "v_free", "a", "beta"):
            if rng.random() < 0.4:
                x = float(l[a])
                k = rng.random()
                po[(l["id"], a)] = np.array([x]) if (a == "beta" and k < 0.5) else (np.array(x) if k < 0.8 else np.float64(x))
    for o in desc["origins"]:
        if o.get("C") is not None and rng.random() < 0.4:
            # a 0-d value, or a length-1 view of a parameter vector the caller keeps
            # (a length-1 capacity makes the ramp's flow and queue length-1 arrays: only where the variables are)
            po[(o["id"], "C")] = np.array([0.0, float(o["C"]), 0.0])[1:2] if (len1_capacity and rng.random() < 0.6) else np.array(float(o["C"]))
    return po


TURNING_COUNTS = {"prob": 0.08}


def turning_counts(desc, rng):
    """Turn rates given as raw turning COUNTS read from an integer detector array (they need not be normalised): NumPy
    scalars of a small integer type, whose sum over the links leaving a node does not fit that type.  Changes `desc`
    (the rates are those counts) and returns the param_override."""
    import numpy as np

    from vf.refmodel import topology

    ins, outs, org, dst = topology(desc)
    po = {}
    for n_ in desc["nodes"]:
        if len(outs[n_]) >= 2:
            dt, lo, hi = rng.choice(((np.uint8, 130, 250), (np.int8, 70, 120), (np.uint16, 33000, 60000), (np.int16, 17000, 30000)))
            for l in outs[n_]:
                c = rng.randint(lo, hi)
                l["beta"] = float(c)
                po[(l["id"], "beta")] = dt(c)
    return po


def make_net(M, g: G.NetGen, shape, rng, random_ops=True, numpy_params=False, len1_capacity=False):
    if shape == "allkinds":
        desc = g.all_kinds_network()
        shp = "allkinds"
    else:
        shp, desc = g.network(shape)
    if USER_KINDS["prob"] and rng.random() < USER_KINDS["prob"]:
        G.add_user_kinds(desc, rng)
    ops = D.random_ops(desc, rng) if (random_ops and rng.random() < 0.7) else None
    po = numpy_param_forms(desc, rng, len1_capacity) if (numpy_params and rng.random() < (0.4 if len1_capacity else 0.2)) else None
    if rng.random() < TURNING_COUNTS["prob"]:
        tc = turning_counts(desc, rng)
        if tc:
            po = {**(po or {}), **tc}
            D.FORM_STATS["networks with small-integer turning counts as turn rates"] = D.FORM_STATS.get("networks with small-integer turning counts as turn rates", 0) + 1
    built = D.build(M, desc, ops, param_override=po)
    built.numpy_valued_parameters = bool(po)
    built.caller_arrays = po or {}  # the caller keeps the arrays it handed over
    return shp, desc, built


def relocate_signs_inplace(built, desc, rng):
    """A sign is relocated / the sign list reversed / the compliance factor changed on the live object: the list of limited
    segments is a plain public attribute, edited IN PLACE (same list object, same length); mirrored in `desc`."""
    done = False
    for l in desc["links"]:
        el = built.links[l["id"]]
        if l.get("vsl") and isinstance(getattr(el, "vsl", None), (list, range)) and len(el.vsl) == len(l["vsl"]):
            if isinstance(el.vsl, range):
                el.vsl = list(el.vsl)
            free = [i for i in range(l["N"]) if i not in [j % l["N"] for j in el.vsl]]
            how = rng.choice(("move", "move", "reverse", "alpha", "range")) if free else rng.choice(("reverse", "alpha", "range"))
            if how == "range":
                # the signs re-assigned as a range (same number of signs: the last k segments, or the first k backwards)
                k_ = len(el.vsl)
                el.vsl = rng.choice((range(-k_, 0), range(k_ - 1, -1, -1), range(0, k_)))
                l["vsl"] = list(el.vsl)
                l["vsl_live_order"] = True
                done = True
                continue
            if how == "move":
                el.vsl[rng.randrange(len(el.vsl))] = rng.choice(free)
            elif how == "reverse":
                el.vsl.reverse()
            else:
                l["alpha"] = rng.choice((0.0, 0.05, 0.2, -0.1))
                el.alpha = l["alpha"]
            l["vsl"] = list(el.vsl)
            l["vsl_live_order"] = True
            done = True
    return done


def mutate_params_inplace(built, desc, rng, prefer=None):
    """Changes parameters of the live element objects in place (plain public attributes) and
    mirrors the change in `desc`; returns a short label.  A memo of anything derived from the
    parameters that is not refreshed would make the next step disagree with the reference."""
    from vf.refmodel import topology

    ins, outs, org, dst = topology(desc)
    kind = rng.choice(("scale_turnrates", "change_turnrates", "lanes", "length", "fd", "capacity", "flow_equation", "flow_equation", "signs", "signs"))
    if prefer and rng.random() < 0.6:
        kind = rng.choice(prefer)
    if kind == "signs":
        if relocate_signs_inplace(built, desc, rng):
            return "signs relocated in place"
        kind = "fd"
    if kind == "flow_equation" and not any(o["kind"] in ("ramp", "simple") for o in desc["origins"]):
        kind = "fd"
    if kind == "scale_turnrates":
        for n in desc["nodes"]:
            if outs[n]:
                c = rng.choice((0.25, 2.5, 7.0))
                for l in outs[n]:
                    l["beta"] = l["beta"] * c
                    built.links[l["id"]].turnrate = l["beta"]
    elif kind == "change_turnrates":
        for l in desc["links"]:
            l["beta"] = round(rng.uniform(0.1, 2.5), 3)
            built.links[l["id"]].turnrate = l["beta"]
    elif kind == "lanes":
        for l in desc["links"]:
            if rng.random() < 0.5:
                l["lam"] = rng.choice((1, 2, 3, 4, 5))
                built.links[l["id"]].lam = l["lam"]
    elif kind == "length":
        for l in desc["links"]:
            l["L"] = round(rng.uniform(0.4, 1.6), 3)
            built.links[l["id"]].L = l["L"]
    elif kind == "fd":
        for l in desc["links"]:
            l["rho_crit"] = round(rng.uniform(25.0, 40.0), 2)
            l["v_free"] = round(rng.uniform(90.0, 130.0), 2)
            l["a"] = round(rng.uniform(1.2, 3.2), 3)
            el = built.links[l["id"]]
            el.rho_crit, el.v_free, el.a = l["rho_crit"], l["v_free"], l["a"]
    elif kind == "flow_equation":
        # the flow-equation variant is a plain public attribute of a ramp: switched on the live object
        other = {"in": "out", "out": "in", "limited": "unlimited", "unlimited": "limited"}
        for o in desc["origins"]:
            if o["kind"] in ("ramp", "simple"):
                o["eq"] = other[o["eq"]]
                built.origins[o["id"]].flow_eq_type = D.fresh(o["eq"])
    else:
        import numpy as _np

        for o in desc["origins"]:
            if o["kind"] in ("ramp", "simple"):
                o["C"] = round(rng.uniform(1200.0, 4500.0), 1)
                cur = getattr(built, "caller_arrays", {}).get((o["id"], "C"))
                if isinstance(cur, _np.ndarray) and cur.flags.writeable and cur.ndim >= 0 and built.origins[o["id"]].C is cur:
                    cur[...] = o["C"]  # the caller overwrites the content of the array it handed over
                    kind = "capacity (array content overwritten in place)"
                else:
                    built.origins[o["id"]].C = o["C"]
    return kind


def replace_elements_inplace(M, built, desc, rng):
    """Replaces element OBJECTS of a live (already stepped) network through the public API: the link on
    an existing edge by a new Link with other parameters, the origin/destination of a node by another
    object.  Returns (desc', label); `built` is updated.  Anything remembered about the replaced object
    (its link, its parameters, its states) would make the next step disagree with the reference."""
    import copy

    from vf.refmodel import topology

    d = copy.deepcopy(desc)
    ins, outs, org, dst = topology(d)
    kind = rng.choice(("link", "link", "origin", "dest"))
    if kind == "link":
        fed = [x for x in d["links"] if x["up"] in org]  # links fed by an origin: its flow law reads their parameters
        l = rng.choice(fed) if (fed and rng.random() < 0.6) else rng.choice(d["links"])
        l["N"] = rng.choice((1, 2, 3))
        l["lam"] = rng.choice((1, 2, 3, 4))
        l["L"] = round(rng.uniform(0.4, 1.6), 3)
        l["rho_max"] = round(rng.uniform(160.0, 200.0), 2)
        l["rho_crit"] = round(rng.uniform(25.0, 40.0), 2)
        l["v_free"] = round(rng.uniform(90.0, 130.0), 2)
        if l.get("vsl") is not None:
            l["vsl"] = sorted(rng.sample(range(l["N"]), rng.randint(0, l["N"])))
        l["name"] = l["name"] + "r"
        _n, links, _o, _d = D.make_objects(M, {"nodes": [], "links": [l], "origins": [], "dests": []})
        built.links[l["id"]] = links[l["id"]]
        built.net.add_link(built.nodes[l["up"]], links[l["id"]], built.nodes[l["down"]])
    elif kind == "origin" and d["origins"]:
        o = rng.choice(d["origins"])
        allowed = ("ramp", "simple") if ins[o["node"]] else ("ideal", "main", "ramp", "simple")
        o["kind"] = rng.choice(allowed)
        o["eq"] = {"ramp": rng.choice(("in", "out")), "simple": rng.choice(("limited", "unlimited"))}.get(o["kind"])
        o["C"] = round(rng.uniform(1200.0, 4500.0), 1) if o["kind"] in ("ramp", "simple") else None
        o["name"] = o["name"] + "r"
        _n, _l, origins, _d = D.make_objects(M, {"nodes": [], "links": [], "origins": [o], "dests": []})
        built.origins[o["id"]] = origins[o["id"]]
        built.net.add_origin(origins[o["id"]], built.nodes[o["node"]])
    elif kind == "dest" and d["dests"]:
        x = rng.choice(d["dests"])
        x["kind"] = rng.choice(("free", "cong"))
        x["name"] = x["name"] + "r"
        _n, _l, _o, dests = D.make_objects(M, {"nodes": [], "links": [], "origins": [], "dests": [x]})
        built.dests[x["id"]] = dests[x["id"]]
        built.net.add_destination(dests[x["id"]], built.nodes[x["node"]])
    else:
        return desc, None
    built.desc = d
    return d, kind


def grow_network_inplace(M, built, desc, rng):
    """Extends a live (already stepped) network through the public API: a new branch with its own
    destination at a node that had one leaving link (a bifurcation appears), a new entering link with
    its own origin (a merge appears), or an on-ramp at an interior node.  Single, bulk and path forms.
    Returns (desc', label) or (desc, None)."""
    import copy

    from vf.refmodel import topology

    d = copy.deepcopy(desc)
    ins, outs, org, dst = topology(d)
    g = G.NetGen(rng)
    proto = copy.deepcopy(rng.choice(d["links"]))
    k = len(d["links"])
    while any(l["id"] == f"L{k}" for l in d["links"]):
        k += 1

    def new_link(up, down):
        l = dict(proto, id=f"L{k}", name=f"L{k}g", up=up, down=down, N=rng.choice((1, 2, 3)), lam=rng.choice((1, 2, 3)),
                 L=round(rng.uniform(0.4, 1.6), 3), beta=round(rng.uniform(0.1, 2.5), 3), vsl=None, alpha=None)
        return l

    kinds = []
    cand_b = [n for n in d["nodes"] if len(outs[n]) == 1 and n not in org and n not in dst]
    cand_m = [n for n in d["nodes"] if n not in org and n not in dst and len(outs[n]) >= 1]
    cand_r = [n for n in d["nodes"] if n not in org and len(ins[n]) >= 1 and len(outs[n]) == 1]
    if cand_b:
        kinds.append("branch")
    if cand_m:
        kinds.append("merge")
    if cand_r:
        kinds.append("ramp")
    if not kinds:
        return desc, None
    kind = rng.choice(kinds)
    form = rng.choice(("add_link", "add_links", "add_path"))
    if kind in ("branch", "merge"):
        nn = f"G{len(d['nodes'])}"
        d["nodes"].append(nn)
        node = M.Node(name=nn)
        built.nodes[nn] = node
        if kind == "branch":
            n = rng.choice(cand_b)
            l = new_link(n, nn)
            x = {"id": f"D{len(d['dests'])}g", "name": f"Dg{len(d['dests'])}", "node": nn, "kind": rng.choice(("free", "cong"))}
            d["dests"].append(x)
        else:
            n = rng.choice(cand_m)
            l = new_link(nn, n)
            okind = rng.choice(("ideal", "main", "ramp", "simple"))
            x = {"id": f"O{len(d['origins'])}g", "name": f"Og{len(d['origins'])}", "node": nn, "kind": okind,
                 "C": round(rng.uniform(1200.0, 4500.0), 1) if okind in ("ramp", "simple") else None,
                 "eq": {"ramp": rng.choice(("in", "out")), "simple": rng.choice(("limited", "unlimited"))}.get(okind)}
            d["origins"].append(x)
        d["links"].append(l)
        _n, links, _o, _d = D.make_objects(M, {"nodes": [], "links": [l], "origins": [], "dests": []})
        lk = links[l["id"]]
        built.links[l["id"]] = lk
        up, dn = built.nodes[l["up"]], built.nodes[l["down"]]
        if form == "add_link":
            built.net.add_link(up, lk, dn)
        elif form == "add_links":
            built.net.add_links([(up, lk, dn)])
        if kind == "branch":
            _n, _l, _o, dests = D.make_objects(M, {"nodes": [], "links": [], "origins": [], "dests": [x]})
            built.dests[x["id"]] = dests[x["id"]]
            if form == "add_path":
                built.net.add_path((up, lk, dn), destination=dests[x["id"]])
            else:
                built.net.add_destination(dests[x["id"]], dn)
        else:
            _n, _l, origins, _d = D.make_objects(M, {"nodes": [], "links": [], "origins": [x], "dests": []})
            built.origins[x["id"]] = origins[x["id"]]
            if form == "add_path":
                built.net.add_path((up, lk, dn), origin=origins[x["id"]])
            else:
                built.net.add_origin(origins[x["id"]], up)
    else:
        n = rng.choice(cand_r)
        okind = rng.choice(("ramp", "simple"))
        x = {"id": f"O{len(d['origins'])}g", "name": f"Og{len(d['origins'])}", "node": n, "kind": okind,
             "C": round(rng.uniform(1200.0, 4500.0), 1),
             "eq": {"ramp": rng.choice(("in", "out")), "simple": rng.choice(("limited", "unlimited"))}[okind]}
        d["origins"].append(x)
        _n, _l, origins, _d = D.make_objects(M, {"nodes": [], "links": [], "origins": [x], "dests": []})
        built.origins[x["id"]] = origins[x["id"]]
        built.net.add_origin(origins[x["id"]], built.nodes[n])
        form = "add_origin"
    if not G.is_valid_desc(d):
        raise RuntimeError("grown description is not valid")
    built.desc = d
    return d, f"{kind} via {form}"


def close_link_inplace(M, built, desc, rng):
    """A road is closed on the live (already stepped) network: the library has no remove call, the edge is
    removed from the networkx graph the network hands out (`net.G.remove_edge`).  Only where the network
    stays valid (the tail keeps another leaving link, the head another entering link).
    Returns (desc', label) or (desc, None)."""
    import copy

    from vf.refmodel import topology

    ins, outs, org, dst = topology(desc)
    cand = [l for l in desc["links"] if len(outs[l["up"]]) >= 2 and len(ins[l["down"]]) >= 2 and l["up"] != l["down"]]
    if not cand:
        return desc, None
    l = rng.choice(cand)
    d = copy.deepcopy(desc)
    d["links"] = [x for x in d["links"] if x["id"] != l["id"]]
    if not G.is_valid_desc(d):
        return desc, None
    graph = rng.choice((lambda n: n.G, lambda n: n.graph))(built.net)
    graph.remove_edge(built.nodes[l["up"]], built.nodes[l["down"]])
    built.closed_link = built.links[l["id"]]
    del built.links[l["id"]]
    built.desc = d
    return d, "link closed through net.G"


def numpy_steps(M, rec, rng, n_nets, draws=3, opts_prob=0.0, on_case=None, regimes=None,
                before_case=None, mutate_prob=0.35,
                scalar_shapes=("vec1", "0d", "float"), via_prob=0.2, mutate_prefer=None):
    """n_nets generated valid networks x `draws` value draws stepped with the NumPy
    engine from user arrays."""
    NE, CE = drive.engines(M)
    g = G.NetGen(rng)
    sh = shapes_cycle()
    for _ in range(n_nets):
        shape = next(sh)
        shp, desc, built = make_net(M, g, shape, rng, numpy_params=True)
        if built.numpy_valued_parameters:
            rec.count("networks_with_numpy_valued_parameters")
        rec.seen("shapes", shp)
        rec.seen("net_signatures", D.signature(desc))
        if any(o.get("user") or o.get("user_cap_flow") is not None for o in desc["origins"]) or any(l.get("user_cap") is not None or l.get("user_reorder") for l in desc["links"]):
            rec.count("networks_with_user_defined_element_kinds")
        keep_engine = NE() if rng.random() < 0.5 else None  # one engine object for all steps of this network
        for k in range(draws):
            reg = regimes[k % len(regimes)] if regimes else None
            regime, vals = g.values(desc, reg)
            pars = g.pars()
            opts = {}
            if rng.random() < opts_prob:
                for o in ("positive_next_speed", "positive_next_density", "positive_next_queue"):
                    if rng.random() < 0.5:
                        opts[o] = True
            int_dtype = rng.random() < 0.12
            if int_dtype:  # the same kind of state written with whole numbers, passed as integer arrays
                vals = drive.integerise(vals)
                rec.count("numpy_cases_with_integer_arrays")
            ic = drive.np_init(built, vals, rng.choice(scalar_shapes), int_dtype=int_dtype,
                               shuffle_keys=(rng if rng.random() < 0.3 else None))
            rec.count("numpy_cases")
            case = {"desc": desc, "vals": vals, "pars": pars, "opts": opts, "engine": "numpy",
                    "regime": regime, "shape": shp}
            if before_case:
                before_case(case, built)
            via = drive.pick_via(rng, via_prob)
            if via != "net":
                rec.count("numpy_cases_stepped_through_element_level_calls")
                case["stepped_via"] = via
            try:
                drive.do_step(built.net, via, rng=rng, init_conditions=ic, engine=(keep_engine or NE()), **opts, **drive.step_pars(pars))
            except Exception:
                pass  # recorded by the monitor
            if on_case:
                on_case(case, built)
            if rec.counters.get("numpy_cases", 0) <= 2:
                rec.sample({k2: case[k2] for k2 in ("shape", "regime", "desc", "vals", "pars")})
        # same network objects, parameters changed in place, stepped again
        if rng.random() < mutate_prob:
            import copy as _copy

            desc2 = _copy.deepcopy(desc)
            built.desc = desc2
            what = mutate_params_inplace(built, desc2, rng, mutate_prefer)
            regime, vals = g.values(desc2)
            pars = g.pars()
            rec.count("numpy_cases_after_inplace_parameter_change")
            rec.seen("inplace_parameter_changes", what)
            case = {"desc": desc2, "vals": vals, "pars": pars, "opts": {}, "engine": "numpy", "regime": regime,
                    "shape": shp, "after_inplace_change_of": what}
            if before_case:
                before_case(case, built)
            try:
                drive.do_step(built.net, drive.pick_via(rng, via_prob), rng=rng,
                              init_conditions=drive.np_init(built, vals, "vec1"), engine=(keep_engine or NE()), **drive.step_pars(pars))
            except Exception:
                pass
            if on_case:
                on_case(case, built)
        # element objects replaced through the API on the already stepped network, stepped again; and the
        # surviving element objects re-used in a second network with other links
        if rng.random() < 0.3:
            desc3, what = replace_elements_inplace(M, built, built.desc, rng)
            if what:
                regime, vals = g.values(desc3)
                pars = g.pars()
                rec.count("numpy_cases_after_element_replacement")
                rec.seen("element_replacements", what)
                case = {"desc": desc3, "vals": vals, "pars": pars, "opts": {}, "engine": "numpy", "regime": regime,
                        "shape": shp, "after_replacement_of": what}
                if before_case:
                    before_case(case, built)
                try:
                    drive.do_step(built.net, drive.pick_via(rng, via_prob), rng=rng,
                                  init_conditions=drive.np_init(built, vals, "vec1"), engine=(keep_engine or NE()), **drive.step_pars(pars))
                except Exception:
                    pass
                if on_case:
                    on_case(case, built)
        # the already stepped network is extended through the API (a bifurcation, a merge or an on-ramp
        # appears) and stepped again
        if rng.random() < 0.3:
            try:
                desc5, what = grow_network_inplace(M, built, built.desc, rng)
            except Exception as e:
                desc5, what = built.desc, None
                rec.count("network_growth_failed_in_harness")
                rec.seen("network_growth_failed_in_harness", repr(e)[:120])
            if what:
                regime, vals = g.values(desc5)
                pars = g.pars()
                rec.count("numpy_cases_after_network_growth")
                rec.seen("network_growths", what)
                case = {"desc": desc5, "vals": vals, "pars": pars, "opts": {}, "engine": "numpy", "regime": regime,
                        "shape": shp, "after_growth": what}
                if before_case:
                    before_case(case, built)
                try:
                    drive.do_step(built.net, drive.pick_via(rng, via_prob), rng=rng,
                                  init_conditions=drive.np_init(built, vals, "vec1"), engine=(keep_engine or NE()), **drive.step_pars(pars))
                except Exception:
                    pass
                if on_case:
                    on_case(case, built)
        if rng.random() < 0.3:
            desc6, what = close_link_inplace(M, built, built.desc, rng)
            if what:
                regime, vals = g.values(desc6)
                pars = g.pars()
                rec.count("numpy_cases_after_a_link_was_closed")
                case = {"desc": desc6, "vals": vals, "pars": pars, "opts": {}, "engine": "numpy", "regime": regime,
                        "shape": shp, "after": what}
                if before_case:
                    before_case(case, built)
                try:
                    drive.do_step(built.net, drive.pick_via(rng, via_prob), rng=rng,
                                  init_conditions=drive.np_init(built, vals, "vec1"), engine=(keep_engine or NE()), **drive.step_pars(pars))
                except Exception:
                    pass
                if on_case:
                    on_case(case, built)
        if rng.random() < 0.15:
            desc4 = G.redraw_link_params(built.desc, rng)
            reuse = dict(built.origins)
            reuse.update(built.dests)
            built2 = D.build(M, desc4, D.random_ops(desc4, rng), reuse=reuse)
            regime, vals = g.values(desc4)
            pars = g.pars()
            rec.count("numpy_cases_with_reused_origin_destination_objects")
            case = {"desc": desc4, "vals": vals, "pars": pars, "opts": {}, "engine": "numpy", "regime": regime,
                    "shape": shp, "reused_objects": "origins+destinations of an already stepped network"}
            if before_case:
                before_case(case, built2)
            try:
                built2.net.step(init_conditions=drive.np_init(built2, vals, "vec1"), engine=NE(), **drive.step_pars(pars))
            except Exception:
                pass
            if on_case:
                on_case(case, built2)


def small_valid_steps(M, rec, rng, nmax, k=0, n=1, before_case=None, seed=0, kinds_full=True, only_n=None):
    """Every valid (topology, role) assignment on <= nmax labelled nodes (self-loops included),
    each stepped once with the NumPy engine (sharded by index)."""
    NE, CE = drive.engines(M)
    g = G.NetGen(rng)
    import random as _r

    for i, desc in enumerate(G.all_valid_small(nmax, _r.Random(seed), kinds_full=kinds_full)):
        if i % n != k:
            continue
        if only_n is not None and len(desc["nodes"]) != only_n:
            continue
        built = D.build(M, desc, D.random_ops(desc, rng) if rng.random() < 0.5 else None)
        regime, vals = g.values(desc)
        pars = g.pars()
        rec.count("exhaustive_small_network_cases")
        case = {"desc": desc, "vals": vals, "pars": pars, "opts": {}, "engine": "numpy", "regime": regime}
        if before_case:
            before_case(case, built)
        try:
            built.net.step(init_conditions=drive.np_init(built, vals, "vec1"), engine=NE(), **drive.step_pars(pars))
        except Exception:
            pass
    rec.extra["exhaustive_small_nmax"] = max(nmax, rec.extra.get("exhaustive_small_nmax", 0))


def symbolic_param_steps(M, rec, rng, symvals, n_nets, before_case=None):
    """Symbolic steps in which a random subset of link / ramp / model parameters are symbols too
    (the laws must treat parameters as opaque values)."""
    from vf import compilecases as CC

    NE, CE = drive.engines(M)
    g = G.NetGen(rng)
    sh = shapes_cycle()
    import casadi as cs

    for it in range(n_nets):
        shp, desc, _b = make_net(M, g, next(sh), rng, random_ops=False)
        st = ("SX", "MX")[it % 2]
        XX = getattr(cs, st)
        pars = g.pars()
        cand = CC.candidate_params(desc, pars)
        keys = rng.sample(cand, rng.randint(1, min(6, len(cand))))
        _, vals = g.values(desc)
        symvals.clear()
        override, spars = {}, dict(pars)
        linkd = {l["id"]: l for l in desc["links"]}
        orgd = {o["id"]: o for o in desc["origins"]}
        for (eid, attr) in keys:
            if eid == "#":
                s = XX.sym("P_" + attr)
                spars[attr] = s
                symvals.set("P_" + attr, pars[attr])
            else:
                s = XX.sym(f"P_{attr}_{eid}")
                override[(eid, attr)] = s
                symvals.set(f"P_{attr}_{eid}", (linkd.get(eid) or orgd.get(eid))[attr])
        built = D.build(M, desc, D.random_ops(desc, rng), param_override=override)
        ic, syms = drive.sym_init(M, built, st, symvals, vals)
        rec.count("symbolic_parameter_cases")
        for k_ in keys:
            rec.seen("symbolic_parameter_kinds", k_[1])
        case = {"desc": desc, "vals": vals, "pars": pars, "opts": {}, "engine": st, "symbolic_parameters": [list(k_) for k_ in keys]}
        if before_case:
            before_case(case, built)
        try:
            built.net.step(init_conditions=ic, engine=CE(st), **drive.step_pars(spars))
        except Exception:
            pass


def symbolic_steps(M, rec, rng, symvals, n_nets, points=3, symtypes=("SX", "MX"), on_case=None,
                   opts_prob=0.0, before_case=None):
    """Networks stepped with the CasADi engine on symbols created by the harness; the
    monitor evaluates the resulting expressions at `points` registered value sets per
    step (the same symbolic step is re-observed by calling step again)."""
    NE, CE = drive.engines(M)
    g = G.NetGen(rng)
    sh = shapes_cycle()
    for _ in range(n_nets):
        shape = next(sh)
        shp, desc, built = make_net(M, g, shape, rng)
        rec.seen("shapes_sym", shp)
        if any(o.get("user") or o.get("user_cap_flow") is not None for o in desc["origins"]) or any(l.get("user_cap") is not None or l.get("user_reorder") for l in desc["links"]):
            rec.count("symbolic_networks_with_user_defined_element_kinds")
        for st in symtypes:
            pars = g.pars()
            for k in range(points):
                regime, vals = g.values(desc)
                symvals.clear()
                ic, syms = drive.sym_init(M, built, st, symvals, vals)
                opts = {}
                if rng.random() < opts_prob:
                    for o in ("positive_next_speed", "positive_next_density", "positive_next_queue"):
                        if rng.random() < 0.5:
                            opts[o] = True
                rec.count("symbolic_cases")
                case = {"desc": desc, "vals": vals, "pars": pars, "opts": opts, "engine": st}
                if before_case:
                    before_case(case, built)
                via = drive.pick_via(rng, 0.2)
                if via != "net":
                    rec.count("symbolic_cases_stepped_through_element_level_calls")
                    case["stepped_via"] = via
                try:
                    drive.do_step(built.net, via, rng=rng, init_conditions=ic, engine=CE(st), **opts, **drive.step_pars(pars))
                except Exception:
                    pass
                if on_case:
                    on_case(case, built)


def dm_steps(M, rec, rng, symvals, n_nets, before_case=None):
    """The CasADi engine stepped on plain numbers held as casadi.DM (a numeric run with the symbolic engine):
    dense vectors, or vectors built as `x = DM(n, 1); x[i] = value` whose empty segments are structural
    zeros."""
    import casadi as cs

    NE, CE = drive.engines(M)
    g = G.NetGen(rng)
    sh = shapes_cycle()
    for it in range(n_nets):
        shp, desc, built = make_net(M, g, next(sh), rng)
        st = ("SX", "MX")[it % 2]
        pars = g.pars()
        regime, vals = g.values(desc, rng.choice(("zero", "mixed", "boundary", "interior")), allow_inf=False)
        lay = D.var_layout(desc)
        sparse = it % 3 != 0
        ic = {}
        for eid, L in lay.items():
            d = {}
            for grp in ("states", "actions", "disturbances"):
                for name, n in L[grp]:
                    x = vals[eid][name]
                    xs = list(x) if isinstance(x, list) else [x]
                    if sparse:
                        m = cs.DM(len(xs), 1)
                        for i_, t_ in enumerate(xs):
                            if t_ != 0.0:
                                m[i_] = t_
                    else:
                        m = cs.DM(xs)
                    d[name] = m
            if d:
                ic[built.el(eid)] = d
        symvals.clear()
        rec.count("casadi_engine_steps_on_DM_numbers")
        rec.seen("dm_forms", "structurally sparse" if sparse else "dense")
        case = {"desc": desc, "vals": vals, "pars": pars, "opts": {}, "engine": st, "regime": regime, "numbers_as": "casadi.DM"}
        if before_case:
            before_case(case, built)
        try:
            drive.do_step(built.net, drive.pick_via(rng, 0.2), rng=rng, init_conditions=ic, engine=CE(st), **drive.step_pars(pars))
        except Exception:
            pass


def overlapping_steps(M, rec, rng, n_pairs, before_case=None):
    """Two independent networks (own objects, own engines, own values) whose steps OVERLAP in time, as they
    would in two threads: while network A is half-way through its step (inside the flow of a link entering a
    merge), network B is stepped completely; then A goes on.  Made deterministic with a user-defined link kind
    whose get_flow calls back once."""
    import copy

    from vf.refmodel import topology

    NE, CE = drive.engines(M)
    g = G.NetGen(rng)
    for it in range(n_pairs):
        pair = []
        for _k in range(2):
            _s, desc = g.network(rng.choice(("merge", "crossing", "merge", "random")))
            pair.append(copy.deepcopy(desc))
        dA, dB = pair
        ins, outs, org, dst = topology(dA)
        merges = [n_ for n_ in dA["nodes"] if len(ins[n_]) >= 2]
        if not merges:
            continue
        probe = None
        for l_ in ins[rng.choice(merges)]:
            if l_.get("vsl") is None:
                l_["user_reorder"] = True  # makes it the user-defined link kind (same dynamics)
                probe = l_["id"]
                break
        if probe is None:
            continue
        bA, bB = D.build(M, dA, D.random_ops(dA, rng)), D.build(M, dB, D.random_ops(dB, rng))
        _, vA = g.values(dA, "interior", allow_inf=False)
        _, vB = g.values(dB, "interior", allow_inf=False)
        pA, pB = g.pars(), g.pars()
        caseA = {"desc": dA, "vals": vA, "pars": pA, "opts": {}, "engine": "numpy", "overlapping_with_another_network": True}
        caseB = {"desc": dB, "vals": vB, "pars": pB, "opts": {}, "engine": "numpy", "stepped_in_the_middle_of_another_step": True}

        def meanwhile():
            if before_case:
                before_case(caseB, bB)
            try:
                bB.net.step(init_conditions=drive.np_init(bB, vB, "vec1"), engine=NE(), **drive.step_pars(pB))
            except Exception:
                pass
            if before_case:
                before_case(caseA, bA)

        bA.links[probe].hook = meanwhile
        rec.count("pairs_of_overlapping_steps")
        if before_case:
            before_case(caseA, bA)
        try:
            bA.net.step(init_conditions=drive.np_init(bA, vA, "vec1"), engine=NE(), **drive.step_pars(pA))
        except Exception:
            pass


def shared_object_networks(M, rec, rng, n_pairs, before_case=None, engine_kinds=("numpy",), symvals=None, after_step=None):
    """A whole network and a corridor sub-model of it made of THE SAME Node / Link / Origin / Destination objects (decentralised
    control: the corridor controller has its own small network), both fully built first and then stepped alternately, with
    no construction call in between.  At the junctions where the corridor leaves out a branch the two networks disagree on a
    node's leaving / entering links: whatever is remembered per node object would answer for the wrong network."""
    import copy

    from vf.refmodel import topology

    NE, CE = drive.engines(M)
    g = G.NetGen(rng)
    for it in range(n_pairs):
        _s, dA = g.network(("bifurcation", "crossing", "random", "merge")[it % 4])
        dA = copy.deepcopy(dA)
        ins, outs, org, dst = topology(dA)
        starts = [o for o in dA["origins"] if not ins[o["node"]]]
        if not starts:
            continue
        node = rng.choice(starts)["node"]
        seen, path = {node}, []
        while outs[node]:
            l_ = rng.choice(outs[node])
            path.append(l_)
            node = l_["down"]
            if node in seen:
                path = None
                break
            seen.add(node)
        if not path or node not in dst:
            continue
        on_path = [path[0]["up"]] + [l_["down"] for l_ in path]
        differs = any(len(outs[n_]) > 1 for n_ in on_path) or any(len(ins[n_]) > 1 for n_ in on_path)
        if not differs:
            continue
        dB = {"nodes": list(on_path), "links": [copy.deepcopy(l_) for l_ in path],
              "origins": [copy.deepcopy(o) for o in dA["origins"] if o["node"] in on_path and (o["node"] == on_path[0] or o["kind"] in ("ramp", "simple"))],
              "dests": [copy.deepcopy(dst[node])]}
        bA = D.build(M, dA, D.random_ops(dA, rng))
        reuse = dict(bA.nodes)
        reuse.update(bA.links)
        reuse.update(bA.origins)
        reuse.update(bA.dests)
        try:
            bB = D.build(M, dB, D.random_ops(dB, rng), reuse=reuse)
        except Exception:
            rec.count("corridor_networks_failed_to_build")
            continue
        rec.count("pairs_of_networks_sharing_their_objects")
        # twins of fresh objects, built now: nothing is constructed any more once the stepping has begun
        tA, tB = (D.build(M, dA), D.build(M, dB)) if after_step else (None, None)
        pA, pB = g.pars(), g.pars()
        order = [rng.choice(("A", "B")) for _ in range(2)] + ["A", "B", "A"]
        for who in order:
            built, desc, pars = (bA, dA, pA) if who == "A" else (bB, dB, pB)
            _, vals = g.values(desc, "interior", allow_inf=False)
            kind = rng.choice(engine_kinds)
            case = {"desc": desc, "vals": vals, "pars": pars, "opts": {}, "engine": kind, "network": "whole" if who == "A" else "corridor of the same objects"}
            if before_case:
                before_case(case, built)
            try:
                if kind == "numpy":
                    built.net.step(init_conditions=drive.np_init(built, vals, "vec1"), engine=NE(), **drive.step_pars(pars))
                else:
                    symvals.clear()
                    ic, _syms = drive.sym_init(M, built, kind, symvals, vals)
                    built.net.step(init_conditions=ic, engine=CE(kind), **drive.step_pars(pars))
                rec.count("steps_of_networks_sharing_their_objects")
            except Exception:
                rec.count("steps_of_networks_sharing_their_objects_raised")
                continue
            if after_step:
                after_step(case, built, tA if who == "A" else tB)


def late_registered_ramp_kinds(M, rec, rng, n_nets, before_case=None, engine_kinds=("numpy",), symvals=None):
    """A user-defined feeder kind (prescribed flow, nothing inherited from the ramp classes) sits at an interior node; the
    network is stepped; only THEN the kind is declared a ramp (`MeteredOnRamp.register`, the natural reaction to what
    `is_valid` says) and the network is stepped again: from then on the merging term applies.  What a kind is, is asked at
    each step (fresh class per case: a registration cannot be undone)."""
    from vf import userkinds as UK

    NE, CE = drive.engines(M)
    g = G.NetGen(rng)
    for it in range(n_nets):
        # (a ramp's flow is asked for as get_flow(net, T, engine) by the links and with keywords by the nodes)
        Feeder = type("Feeder", (UK.BoundaryOrigin,), {"get_flow": lambda self, net, T=None, engine=None, **kw: self.flow})
        lam = rng.choice((2, 3))

        def lk(i, up, dn):
            return {"id": f"L{i}", "name": f"L{i}", "up": up, "down": dn, "N": rng.choice((1, 2, 3)), "lam": lam, "L": round(rng.uniform(0.6, 1.4), 2),
                    "rho_max": 180.0, "rho_crit": round(rng.uniform(28, 38), 1), "v_free": round(rng.uniform(95, 120), 1),
                    "a": round(rng.uniform(1.4, 2.6), 2), "beta": 1.0, "vsl": None, "alpha": None}

        qf = round(rng.uniform(300.0, 1500.0), 1)
        desc = {"nodes": ["n0", "n1", "n2"], "links": [lk(0, "n0", "n1"), lk(1, "n1", "n2")],
                "origins": [{"id": "O0", "name": "O0", "node": "n0", "kind": rng.choice(("main", "ideal")), "C": None, "eq": None},
                            {"id": "O1", "name": "feeder", "node": "n1", "kind": "ideal", "C": None, "eq": None, "user": True, "user_q": qf, "user_v": None}],
                "dests": [{"id": "D0", "name": "D0", "node": "n2", "kind": rng.choice(("free", "cong"))}]}
        built = D.build(M, desc, reuse={"O1": Feeder(flow=qf, name="feeder")})
        pars = g.pars(delta=True)
        kind = engine_kinds[it % len(engine_kinds)]
        eng = NE() if kind == "numpy" else CE(kind)
        for phase in ("before the registration", "after the registration", "after the registration"):
            _, vals = g.values(desc, "interior", allow_inf=False)
            case = {"desc": desc, "vals": vals, "pars": pars, "opts": {}, "engine": kind, "feeder_kind": phase}
            if before_case:
                before_case(case, built)
            try:
                if kind == "numpy":
                    built.net.step(init_conditions=drive.np_init(built, vals, "vec1"), engine=eng, **drive.step_pars(pars))
                else:
                    symvals.clear()
                    ic, _syms = drive.sym_init(M, built, kind, symvals, vals)
                    built.net.step(init_conditions=ic, engine=eng, **drive.step_pars(pars))
                rec.count("steps_with_a_kind_registered_late:" + phase)
            except Exception:
                rec.count("steps_with_a_kind_registered_late_raised")
            if phase.startswith("before"):
                M.MeteredOnRamp.register(Feeder)


def user_node_rules(M, rec, rng, n_nets, before_case=None, engine_kinds=("numpy",), symvals=None, regimes=("interior",)):
    """Networks with a user-defined NODE kind that has its own node rule (an exit taking a share of the flow at the node) at
    plain joints, merges, bifurcations and on-ramp nodes alike: the rule of the node object applies wherever it sits."""
    import copy

    from vf.refmodel import topology

    NE, CE = drive.engines(M)
    g = G.NetGen(rng)
    for it in range(n_nets):
        _s, desc = g.network(("chain", "ramp", "merge", "bifurcation", "random", "chain")[it % 6])
        desc = copy.deepcopy(desc)
        ins, outs, org, dst = topology(desc)
        inner = [n_ for n_ in desc["nodes"] if ins[n_] and outs[n_]]
        if not inner:
            continue
        plain = [n_ for n_ in inner if len(ins[n_]) == 1 and len(outs[n_]) == 1 and n_ not in org]
        chosen = set(rng.sample(inner, rng.randint(1, len(inner))))
        if plain:
            chosen.add(rng.choice(plain))
        desc["node_off"] = {n_: round(rng.uniform(0.05, 0.4), 3) for n_ in sorted(chosen)}
        # ... and its own downstream density (what the entering links - and nobody else - are told lies ahead), also at nodes
        # that carry an on-ramp and at nodes with one leaving link
        blocked = [n_ for n_ in inner if rng.random() < 0.6] or [rng.choice(inner)]
        desc["node_block"] = {n_: round(rng.uniform(20.0, 120.0), 1) for n_ in sorted(blocked)}
        built = D.build(M, desc, D.random_ops(desc, rng))
        rec.count("networks_with_a_user_defined_node_rule")
        for k in range(2):
            kind = engine_kinds[(it + k) % len(engine_kinds)]
            _, vals = g.values(desc, regimes[(it + k) % len(regimes)], allow_inf=False)
            pars = g.pars()
            case = {"desc": desc, "vals": vals, "pars": pars, "opts": {}, "engine": kind}
            if before_case:
                before_case(case, built)
            via = drive.pick_via(rng, 0.3)
            try:
                if kind == "numpy":
                    drive.do_step(built.net, via, rng=rng, init_conditions=drive.np_init(built, vals, "vec1"), engine=NE(), **drive.step_pars(pars))
                else:
                    symvals.clear()
                    ic, _syms = drive.sym_init(M, built, kind, symvals, vals)
                    drive.do_step(built.net, via, rng=rng, init_conditions=ic, engine=CE(kind), **drive.step_pars(pars))
                rec.count("steps_with_a_user_defined_node_rule")
            except Exception:
                rec.count("steps_with_a_user_defined_node_rule_raised")


def user_engine_laws(M, rec, rng, n_nets, before_case=None, symvals=None):
    """User-defined engines (both families) that bring their OWN destination law and their OWN queue update (a finite storage
    space) - the primitives `destinations.get_congested_downstream_density` and `origins.step_queue` overridden: whatever law an
    element needs is the one of the engine in use (passed explicitly or selected)."""
    import copy

    import casadi as cs
    import numpy as np

    import sym_metanet.engines.casadi as EC
    import sym_metanet.engines.numpy as EN
    from sym_metanet import engines as E

    storage = 40.0

    class DestNP(EN.DestinationsEngine):
        @staticmethod
        def get_congested_downstream_density(rho_last, rho_destination, rho_crit):
            return 0.5 * (np.maximum(np.minimum(rho_last, rho_crit), rho_destination) + rho_destination)

    class OrgNP(EN.OriginsEngine):
        @staticmethod
        def step_queue(w, d, q, T):
            return np.minimum(w + T * (d - q), storage)

    class UserNP(EN.Engine):
        destinations = property(lambda self: DestNP)
        origins = property(lambda self: OrgNP)

    class DestCS(EC.DestinationsEngine):
        @staticmethod
        def get_congested_downstream_density(rho_last, rho_destination, rho_crit):
            return 0.5 * (cs.fmax(cs.fmin(rho_last, rho_crit), rho_destination) + rho_destination)

    class OrgCS(EC.OriginsEngine):
        @staticmethod
        def step_queue(w, d, q, T):
            return cs.fmin(w + T * (d - q), storage)

    class UserCS(EC.Engine):
        destinations = property(lambda self: DestCS)
        origins = property(lambda self: OrgCS)

    g = G.NetGen(rng)
    sh = shapes_cycle()
    saved = E.get_current_engine()
    try:
        for it in range(n_nets):
            desc = copy.deepcopy(g.all_kinds_network() if it % 3 == 0 else g.network(next(sh))[1])
            if any(o.get("user") or o.get("user_cap_flow") is not None for o in desc["origins"]) or any(l.get("user_cap") is not None or l.get("user_reorder") for l in desc["links"]):
                continue
            desc["user_engine_laws"] = {"storage": storage}
            built = D.build(M, desc, D.random_ops(desc, rng))
            kind = ("numpy", "SX", "numpy", "MX")[it % 4]
            eng = UserNP() if kind == "numpy" else UserCS(kind)
            how = ("explicit", "selected")[(it // 4) % 2]
            E.use(eng if how == "selected" else saved)
            _, vals = g.values(desc, "interior", allow_inf=False)
            for o in desc["origins"]:  # some queues run into the storage limit
                if "w" in vals.get(o["id"], {}) and rng.random() < 0.5:
                    vals[o["id"]].update(w=rng.uniform(30.0, 39.0), d=rng.uniform(4000.0, 8000.0))
            pars = g.pars()
            case = {"desc": desc, "vals": vals, "pars": pars, "opts": {}, "engine": kind, "user_engine_laws": how}
            if before_case:
                before_case(case, built)
            try:
                kw_ = dict(drive.step_pars(pars))
                if how == "explicit":
                    kw_["engine"] = eng
                if kind == "numpy":
                    built.net.step(init_conditions=drive.np_init(built, vals, "vec1"), **kw_)
                else:
                    symvals.clear()
                    ic, _syms = drive.sym_init(M, built, kind, symvals, vals)
                    built.net.step(init_conditions=ic, **kw_)
                rec.count("steps_with_a_user_engine_that_has_its_own_destination_and_queue_laws")
            except Exception:
                rec.count("steps_with_user_engine_laws_raised")
    finally:
        E.use(saved)


def complex_step_turn_rates(M, rec, rng, prop, reps, what):
    """Complex-step differentiation through the NumPy engine with respect to a turn rate (how a NumPy-only user gets exact
    gradients for calibrating split ratios): one leaving link's rate is b + 1e-20j, the states are real; the imaginary parts
    of the next first-segment densities, divided by 1e-20, are the sensitivities.  what="conservation": the inflows of the
    leaving links still add up to what the entering links deliver, to first order; what="shares": each sensitivity is the
    derivative of beta_i / sum(beta) * Q."""
    import numpy as np

    NE, CE = drive.engines(M)
    h = 1e-20
    T, tau, eta, kappa = 10 / 3600, 18 / 3600, 60.0, 40.0
    for it in range(reps):
        n_in = 1 if it % 2 == 0 else 2
        k_out = rng.choice((2, 3))
        mk = lambda nm, N_, lam_, beta=1.0: M.Link(N_, lam_, 1.0, 180.0, 33.5, 102.0, 1.867, beta, nm)  # noqa: E731
        J = M.Node(name="J")
        net = M.Network()
        ups = []
        for i in range(n_in):
            u_ = mk(f"U{i}", rng.choice((1, 2)), rng.choice((2, 3)))
            ups.append(u_)
            net.add_path((M.Node(name=f"S{i}"), u_, J), origin=M.MainstreamOrigin(name=f"O{i}"))
        betas = [round(rng.uniform(0.2, 2.0), 3) for _ in range(k_out)]
        outs_ = []
        for j in range(k_out):
            l_ = mk(f"B{j}", rng.choice((1, 2)), rng.choice((1, 2)), (betas[j] + 1j * h) if j == 0 else betas[j])
            outs_.append(l_)
            net.add_path((J, l_, M.Node(name=f"X{j}")), destination=M.Destination(name=f"D{j}"))
        ic = {}
        Q = 0.0
        for u_ in ups:
            rho = np.array([rng.uniform(15.0, 60.0) for _ in range(u_.N)])
            v = np.array([rng.uniform(40.0, 100.0) for _ in range(u_.N)])
            ic[u_] = {"rho": rho, "v": v}
            Q += rho[-1] * v[-1] * u_.lam
        for l_ in outs_:
            ic[l_] = {"rho": np.array([rng.uniform(10.0, 60.0) for _ in range(l_.N)]), "v": np.array([rng.uniform(40.0, 100.0) for _ in range(l_.N)])}
        for o_ in net.origins:
            ic[o_] = {"w": np.array([5.0]), "d": np.array([2500.0]), "v_ctrl": np.array([300.0])}
        try:
            net.step(init_conditions=ic, engine=NE(), T=T, tau=tau, eta=eta, kappa=kappa)
            sens = [float(np.imag(np.asarray(l_.next_states["rho"]).ravel()[0])) / h * (l_.lam * l_.L / T) for l_ in outs_]  # d q_in,j / d beta_0
        except Exception as e:
            rec.count("complex_step_runs_raised")
            rec.seen("complex_step_runs_raised", repr(e)[:100])
            continue
        rec.count("complex_step_runs")
        S = sum(betas)
        exact = [Q * (S - betas[0]) / S**2] + [-Q * betas[j] / S**2 for j in range(1, k_out)]
        scale = Q / S
        if what == "conservation":
            if abs(sum(sens)) > 1e-9 * scale:
                rec.violation(f"{prop}:numpy:node(n_in={'>=2' if n_in >= 2 else 1},n_out=>=2): to first order in a turn rate (complex-step derivative) the inflows of the leaving links "
                              "do not add up to what the entering links deliver", {"turn_rates": betas, "sensitivities": sens, "their_sum": sum(sens), "Q": Q})
        else:
            if any(abs(a_ - b_) > 1e-9 * scale for a_, b_ in zip(sens, exact)):
                rec.violation(f"{prop}:complex-step derivative with respect to a turn rate:numpy: the sensitivity of the shares is not that of beta_i / sum(beta)",
                              {"turn_rates": betas, "sensitivities": sens, "derivative_of_the_share_formula": exact, "Q": Q})


def complex_step_jacobians(M, rec, rng, prop, n_nets, with_options=False, what="the NumPy step"):
    """Complex-step differentiation of the NumPy dynamics with respect to a STATE entry (x_j + 1e-30j, everything else real;
    sensitivity = imag / 1e-30) against central finite differences of the same step on real numbers.  Whatever a primitive
    does to the real part it does to the perturbation: clamps (identity where positive, zero where negative), merges, limits.
    A disagreement is reported only where both one-sided differences agree with each other (away from a kink)."""
    import copy

    import numpy as np

    NE, CE = drive.engines(M)
    g = G.NetGen(rng)
    h = 1e-30
    for it in range(n_nets):
        desc = copy.deepcopy(g.network(("merge", "chain", "ramp", "bifurcation", "random", "crossing")[it % 6], force=(("vsl",) if it % 3 == 0 else ()))[1])
        if any(o.get("user") or o.get("user_cap_flow") is not None for o in desc["origins"]) or any(l.get("user_cap") is not None or l.get("user_reorder") for l in desc["links"]):
            continue
        pars = g.pars()
        kw = drive.step_pars(pars)
        _, vals = g.values(desc, "interior", allow_inf=False)
        opts = {}
        if with_options:
            opts = {o_: True for o_ in ("positive_init_density", "positive_init_speed", "positive_next_density", "positive_next_speed") if rng.random() < 0.6} or {"positive_init_density": True}
            for l_ in desc["links"]:  # some negative entries: the clamp cuts them (and their perturbation) to zero
                for nm_ in ("rho", "v"):
                    for i_ in range(l_["N"]):
                        if rng.random() < 0.15:
                            vals[l_["id"]][nm_][i_] = -abs(vals[l_["id"]][nm_][i_]) * 0.3
        if R.is_singular(desc, vals):
            continue
        built = D.build(M, desc)
        lk = rng.choice(desc["links"])
        nm, idx = rng.choice(("rho", "v")), rng.randrange(lk["N"])
        if with_options and vals[lk["id"]][nm][idx] < 0 and rng.random() < 0.5:
            pass  # a clamped entry: the sensitivity to it is zero

        def run(delta_real=0.0, complex_step=False):
            ic = drive.np_init(built, vals, "vec1")
            arr = ic[built.links[lk["id"]]][nm]
            if complex_step:
                arr = arr.astype(complex)
                arr[idx] += 1j * h
            else:
                arr = arr.astype(float)
                arr[idx] += delta_real
            ic[built.links[lk["id"]]][nm] = arr
            built.net.step(init_conditions=ic, engine=NE(), **opts, **kw)
            out = {}
            for eid_, el_ in list(built.links.items()) + list(built.origins.items()):
                for k_, x_ in (el_.next_states or {}).items():
                    out[(eid_, k_)] = np.asarray(x_).ravel().copy()
            return out

        x0 = vals[lk["id"]][nm][idx]
        e = 1e-6 * (1.0 + abs(x0))
        try:
            with np.errstate(all="ignore"):
                cz = run(complex_step=True)
                fp, fm, f0 = run(e), run(-e), run(0.0)
        except Exception as e_:
            rec.count("complex_step_jacobian_runs_raised")
            rec.seen("complex_step_jacobian_runs_raised", repr(e_)[:100])
            continue
        rec.count("complex_step_jacobian_runs")
        for key, zc in cz.items():
            d_cs = np.imag(zc) / h
            d_p, d_m = (fp[key].real - f0[key].real) / e, (f0[key].real - fm[key].real) / e
            d_fd = 0.5 * (d_p + d_m)
            for i_ in range(len(d_cs)):
                if not all(map(np.isfinite, (d_cs[i_], d_p[i_], d_m[i_]))):
                    continue
                scale = 1.0 + abs(d_fd[i_])
                if abs(d_p[i_] - d_m[i_]) > 1e-3 * scale:
                    continue  # a kink between the two sides
                rec.count("complex_step_sensitivities_compared")
                if abs(d_fd[i_]) > 1e-6:
                    rec.count("complex_step_sensitivities_that_are_not_zero")
                if abs(d_cs[i_] - d_fd[i_]) > 1e-3 * scale + 1e-5:
                    rec.violation(f"{prop}:complex-step sensitivity of {what} with respect to a state entry differs from the finite difference of the same step"
                                  + (" (positivity options on)" if opts else ""),
                                  {"desc": desc, "vals": vals, "pars": pars, "opts": opts, "perturbed": [lk["id"], nm, idx], "output": [key[0], key[1], i_],
                                   "complex_step": float(d_cs[i_]), "finite_difference": float(d_fd[i_])})
                    break
            else:
                continue
            break


def ensembles_vs_single_scenarios(M, rec, rng, prop, reps):
    """K traffic scenarios pushed through ONE NumPy `Network.step` of a corridor of single-segment links with metered / simplified
    ramps at its nodes (also interior ones): scenario by scenario the next densities, speeds and queues are those of K separate
    steps."""
    import numpy as np

    NE, CE = drive.engines(M)
    T, tau, eta, kappa = 10 / 3600, 18 / 3600, 60.0, 40.0
    for it in range(reps):
        K = rng.choice((2, 3, 4))
        nl = rng.choice((2, 3))
        kinds = [(("ramp", "in"), ("ramp", "out"), ("simple", "limited"))[(it + j) % 3] for j in range(nl)]
        caps = [round(rng.uniform(1200.0, 3000.0), 0) for _ in range(nl)]
        delta = rng.choice((None, 0.0122))

        def build():
            nodes = [M.Node(name=f"N{j}") for j in range(nl + 1)]
            links = [M.Link(1, 2, 1.0, 180.0, 33.5, 102.0, 1.867, name=f"L{j}") for j in range(nl)]
            orgs = [(M.MeteredOnRamp(caps[j], kinds[j][1], name=f"O{j}") if kinds[j][0] == "ramp" else M.SimplifiedMeteredOnRamp(caps[j], kinds[j][1], name=f"O{j}")) for j in range(nl)]
            path = [nodes[0]]
            for j in range(nl):
                path += [links[j], nodes[j + 1]]
            net = M.Network().add_path(tuple(path), origin=orgs[0], destination=M.Destination(name="D"))
            for j in range(1, nl):
                net.add_origin(orgs[j], nodes[j])
            return net, links, orgs

        rho = [np.array([[rng.uniform(10.0, 150.0) for _ in range(K)]]) for _ in range(nl)]
        v = [np.array([[rng.uniform(5.0, 100.0) for _ in range(K)]]) for _ in range(nl)]
        w = [np.array([rng.uniform(0.0, 40.0) for _ in range(K)]) for _ in range(nl)]
        d = [np.array([rng.uniform(300.0, 3000.0) for _ in range(K)]) for _ in range(nl)]
        c = [np.array([rng.uniform(0.3, 1.0) if kinds[j][0] == "ramp" else rng.uniform(300.0, 2500.0) for _ in range(K)]) for j in range(nl)]

        def run(cols):
            net, links, orgs = build()
            ic = {}
            for j in range(nl):
                ic[links[j]] = {"rho": rho[j][:, cols].copy(), "v": v[j][:, cols].copy()}
                ic[orgs[j]] = {"w": w[j][cols].copy(), "d": d[j][cols].copy(), ("r" if kinds[j][0] == "ramp" else "q"): c[j][cols].copy()}
            net.step(init_conditions=ic, engine=NE(), T=T, tau=tau, eta=eta, kappa=kappa, **({"delta": delta} if delta is not None else {}))
            out = []
            for j in range(nl):
                out += [np.asarray(links[j].next_states["rho"], float).reshape(-1), np.asarray(links[j].next_states["v"], float).reshape(-1),
                        np.asarray(orgs[j].next_states["w"], float).reshape(-1)]
            return out

        try:
            with np.errstate(all="ignore"):
                ens = run(slice(None))
                singles = [run(slice(k_, k_ + 1)) for k_ in range(K)]
        except Exception as e:
            rec.count("ensemble_runs_raised")
            rec.seen("ensemble_runs_raised", repr(e)[:120])
            continue
        rec.count("ensemble_vs_single_scenario_runs")
        bad = None
        for i_, arr in enumerate(ens):
            for k_ in range(K):
                exp_ = singles[k_][i_][0]
                if arr.shape != (K,) or not (arr[k_] == exp_ or abs(arr[k_] - exp_) <= 1e-10 * (1 + abs(exp_)) or (np.isnan(arr[k_]) and np.isnan(exp_))):
                    bad = (i_, k_, arr.tolist(), float(exp_))
                    break
            if bad:
                break
        if bad:
            what = ("rho+", "v+", "w+")[bad[0] % 3]
            rec.violation(f"{prop}:numpy: K scenarios pushed through one Network.step of a single-segment corridor with ramps do not give, scenario by scenario, what K separate steps give ({what})",
                          {"K": K, "ramp_kinds": kinds, "element": bad[0] // 3, "scenario": bad[1], "in_the_ensemble": bad[2], "stepped_alone": bad[3]})


def preallocated_buffers(M, rec, rng, prop, n_nets, with_options=False, force=(), edit_turnrates=False, what="the step"):
    """The caller's preallocated loop: ONE set of state / control arrays (and, optionally, turn rates held as NumPy arrays) is
    allocated once, handed to every step and refilled IN PLACE in between (`rho[:] = ...`, `u[:] = np.inf`,
    `link.turnrate[...] = x`), one engine object throughout.  Every step gives what a network of fresh objects gives from
    fresh arrays holding the same numbers: what an array object held at an earlier step plays no role."""
    import copy

    import numpy as np

    NE, CE = drive.engines(M)
    g = G.NetGen(rng)
    for it in range(n_nets):
        desc = copy.deepcopy(g.network(("merge", "chain", "ramp", "bifurcation", "random", "crossing")[it % 6], force=force)[1])
        if any(o.get("user") or o.get("user_cap_flow") is not None for o in desc["origins"]) or any(l.get("user_cap") is not None or l.get("user_reorder") for l in desc["links"]):
            continue
        po = {(l["id"], "beta"): np.array([float(l["beta"])]) if rng.random() < 0.5 else np.array(float(l["beta"])) for l in desc["links"]} if edit_turnrates else None
        ops = D.random_ops(desc, rng)
        built = D.build(M, desc, ops, param_override=po)
        pars = g.pars()
        kw = drive.step_pars(pars)
        eng = NE()
        opts = {}
        if with_options:
            opts = {o_: True for o_ in ("positive_init_density", "positive_init_speed", "positive_init_queue") if rng.random() < 0.7} or {"positive_init_density": True}
        bufs = None
        for k in range(3):
            _, vals = g.values(desc, "interior", allow_inf=False)
            if with_options:
                for l_ in desc["links"]:
                    for nm_ in ("rho", "v"):
                        for i_ in range(l_["N"]):
                            if rng.random() < 0.2:
                                vals[l_["id"]][nm_][i_] = -abs(vals[l_["id"]][nm_][i_]) * 0.3
            if k == 2:
                for l_ in desc["links"]:  # the signs switched off in place: infinite limits in the same arrays
                    if l_.get("vsl") and "v_ctrl" in vals[l_["id"]]:
                        vals[l_["id"]]["v_ctrl"] = [float("inf")] * len(vals[l_["id"]]["v_ctrl"])
            d_now = desc
            if edit_turnrates and k:
                d_now = copy.deepcopy(desc)
                c_ = rng.choice((0.3, 2.0, 5.0))
                for l_ in d_now["links"]:
                    l_["beta"] = round(rng.uniform(0.1, 2.5), 3) if k == 1 else l_["beta"] * c_
                    built.links[l_["id"]].turnrate[...] = l_["beta"]
                desc = d_now
            fresh_ic = drive.np_init(built, vals, "vec1")
            if bufs is None:
                bufs = fresh_ic
            else:
                for el_, d_ in fresh_ic.items():
                    for nm_, x_ in d_.items():
                        bufs[el_][nm_][...] = x_
            try:
                with np.errstate(all="ignore"):
                    built.net.step(init_conditions=bufs, engine=eng, **opts, **kw)
                    got = drive.read_next(built)
                    twin = D.build(M, d_now, ops)
                    twin.net.step(init_conditions=drive.np_init(twin, vals, "vec1"), engine=NE(), **opts, **kw)
                    exp = drive.read_next(twin)
            except Exception as e:
                rec.count("preallocated_buffer_runs_raised")
                rec.seen("preallocated_buffer_runs_raised", repr(e)[:120])
                break
            rec.count("steps_from_preallocated_buffers")
            bad = None
            for eid_, d_ in exp.items():
                for nm_, v_ in d_.items():
                    a_ = np.asarray(got[eid_][nm_], float).ravel()
                    b_ = np.asarray(v_, float).ravel()
                    if a_.shape != b_.shape or not np.array_equal(a_, b_, equal_nan=True):
                        bad = (eid_, nm_, a_.tolist(), b_.tolist())
                        break
                if bad:
                    break
            if bad:
                rec.violation(f"{prop}:numpy: in the caller's preallocated loop (arrays refilled in place, one engine object) step {min(k, 1)}+ of {what} differs from the step of fresh "
                              f"objects and arrays holding the same numbers ({bad[1]}+)",
                              {"desc": desc, "step": k, "opts": opts, "element": bad[0], "from_the_buffers": bad[2], "fresh": bad[3]})
                break


def closed_loop(M, rec, rng, n_sims, steps, on_step=None, before_case=None):
    """Closed-loop NumPy simulations: next states fed back, peaked demand profiles,
    piecewise-constant random controls."""
    NE, CE = drive.engines(M)
    g = G.NetGen(rng)
    sh = shapes_cycle()
    n_plans = 7
    for s in range(n_sims):
        shape = next(sh)
        if s % n_plans in (1, 3):
            shape = "allkinds"  # the loops that do not re-initialise every element see every element kind
        shp, desc, built = make_net(M, g, shape, rng, numpy_params=True, len1_capacity=True)
        _, vals = g.values(desc, "interior", allow_inf=False)
        pars = g.pars()
        ins, outs, org, dst = R.topology(desc)
        peak = rng.randint(steps // 4, max(steps // 4 + 1, steps // 2))
        amp = {o["id"]: rng.uniform(800, 3500) for o in desc["origins"] if o["kind"] != "ideal"}
        ctrl = {}
        rec.count("simulations")
        alive = True
        info = {"clamped": 0.0}
        eng = NE()  # one engine instance and one set of pre-allocated buffers for the whole run
        # how the user's loop is written: through Network.step or through the element-level calls; from fresh
        # arrays each step or from its own buffers refreshed in place; and, in a per-element loop over live
        # buffers, whether the elements are initialised again at every step, only the links, or only once
        plan = (("net", True, "all"), ("elements", True, "once"), ("net", False, "all"),
                ("elements_links_first", True, "links"), ("elements_shuffled", False, "all"), ("elements", True, "all"),
                ("net", "feedback", "all"))
        via, use_buffers, reinit = plan[s % len(plan)]
        buffers = drive.np_init(built, vals, "vec1") if use_buffers is True else None
        if via != "net":
            rec.count("simulations_stepped_through_element_level_calls")
        rec.seen("simulation_loop_forms", (via, {True: "buffers refreshed in place", False: "fresh arrays",
                                                 "feedback": "the library's own next_states mappings fed back"}[use_buffers], "init: " + reinit))
        for k in range(steps):
            if k % 30 == 0:
                import numpy as _np

                for o in desc["origins"]:
                    arr_ = getattr(built, "caller_arrays", {}).get((o["id"], "C"))
                    if k > 0 and o["kind"] in ("ramp", "simple") and isinstance(arr_, _np.ndarray) and arr_.ndim == 1:
                        # an incident: the caller overwrites the content of the capacity array it handed over
                        o["C"] = round(rng.choice((0.3, 0.6, 1.0)) * o["C"], 1)
                        arr_[...] = o["C"]
                        rec.count("capacity_arrays_overwritten_in_place")
                for o in desc["origins"]:
                    if o["kind"] == "ramp":
                        ctrl[o["id"]] = rng.choice((1.0, 1.0, rng.random(), 0.0))
                    elif o["kind"] == "simple":
                        ctrl[o["id"]] = rng.uniform(0, 3000)
                    elif o["kind"] == "main":
                        ctrl[o["id"]] = rng.choice((200.0, rng.uniform(30, 90), math.inf))
                for l in desc["links"]:
                    if l.get("vsl") is not None:
                        ctrl[l["id"]] = [rng.choice((200.0, rng.uniform(30, 90))) for _ in l["vsl"]]
            for o in desc["origins"]:
                if o["kind"] == "ideal":
                    continue
                e = vals[o["id"]]
                e["d"] = amp[o["id"]] * max(0.1, 1.0 - abs(k - peak) / max(1.0, steps / 3))
                if o["kind"] == "ramp":
                    e["r"] = ctrl[o["id"]]
                elif o["kind"] == "simple":
                    e["q"] = ctrl[o["id"]]
                else:
                    e["v_ctrl"] = ctrl[o["id"]]
            for l in desc["links"]:
                if l.get("vsl") is not None:
                    vals[l["id"]]["v_ctrl"] = list(ctrl[l["id"]])
            if buffers is None:
                ic = drive.np_init(built, vals, "vec1")
                if use_buffers == "feedback" and k > 0:
                    # `ic[link] = link.next_states`: the mapping the library returned goes straight back in
                    for lid_, el_ in built.links.items():
                        if el_.next_states is not None and set(el_.next_states) == set(ic[el_]):
                            ic[el_] = el_.next_states
                            rec.count("sim_steps_fed_with_the_library_next_states_mapping")
            else:  # refresh the same arrays in place (the usual simulation loop)
                ic = buffers
                fresh = drive.np_init(built, vals, "vec1")
                for el_, d_ in fresh.items():
                    for name_, arr_ in d_.items():
                        buffers[el_][name_][...] = arr_
                rec.count("sim_steps_with_buffers_refreshed_in_place")
            rec.count("sim_steps")
            if before_case:
                before_case({"desc": desc, "vals": vals, "pars": pars, "engine": "numpy",
                             "opts": {"positive_next_speed": True}, "sim_step": k}, built)
            try:
                only = None
                if via != "net" and k > 0 and buffers is not None and reinit != "all":
                    live = all(el_.states is None or all(el_.states.get(n_) is a_ for n_, a_ in d_.items() if n_ in el_.states)
                               for el_, d_ in buffers.items())
                    if live:  # the elements hold the caller's own arrays: refreshing them in place is enough
                        only = [] if reinit == "once" else list(built.links.values())
                        rec.count("sim_steps_without_full_reinitialisation")
                drive.do_step(built.net, via, rng=rng, init_conditions=ic, engine=eng, positive_next_speed=True,
                              only_init=only, **drive.step_pars(pars))
                nxt = drive.read_next(built)
            except Exception:
                alive = False
                break
            ok = True
            for eid, d in nxt.items():
                for name, v in d.items():
                    for x in (v if isinstance(v, list) else [v]):
                        if not math.isfinite(x) or (name != "w" and x < 0) or abs(x) > 1e6:
                            ok = False
            if on_step:
                on_step(k, desc, vals, nxt, pars, built, info)
            if not ok:
                rec.count("sim_left_admissible_domain")
                break
            for eid, d in nxt.items():
                for name, v in d.items():
                    if isinstance(v, list):
                        vals[eid][name] = list(v)
                    elif name == "w" and v < 0.0:
                        info["clamped"] += -v  # vehicles added by feeding back max(0, w)
                        vals[eid][name] = 0.0
                    else:
                        vals[eid][name] = v
        if not alive:
            rec.count("sim_aborted_by_exception")


def inplace_pairs(M, rec, rng, n_nets, before_case=None, on_case=None, allow_inf=True):
    """A user's own per-element loop over live buffers: the elements are initialised once from the
    caller's arrays and stepped; then the arrays are overwritten in place with unrelated values and the
    elements are stepped again through the element-level calls, without re-initialising them (or
    re-initialising the links only).  Anything remembered from the first step shows in the second."""
    NE, CE = drive.engines(M)
    g = G.NetGen(rng)
    sh = shapes_cycle()
    for it in range(n_nets):
        shape = next(sh)
        shp, desc, built = make_net(M, g, "allkinds" if it % 2 == 0 else shape, rng, numpy_params=True, len1_capacity=True)
        pars = g.pars()
        eng = NE()
        _, A = g.values(desc, allow_inf=False)
        buffers = drive.np_init(built, A, "vec1")
        try:
            drive.do_step(built.net, rng.choice(drive.VIAS), rng=rng, init_conditions=buffers, engine=eng, **drive.step_pars(pars))
        except Exception:
            rec.count("inplace_pairs_first_step_failed")
            continue
        for _rep in range(2):
            regime, B = g.values(desc, allow_inf=allow_inf)
            live = all(el_.states is None or all(el_.states.get(n_) is a_ for n_, a_ in d_.items() if n_ in el_.states)
                       for el_, d_ in buffers.items())
            if not live:
                rec.count("inplace_pairs_buffers_not_live")
                break
            fresh = drive.np_init(built, B, "vec1")
            for el_, d_ in fresh.items():
                for name_, arr_ in d_.items():
                    buffers[el_][name_][...] = arr_
            import numpy as _np

            for o in desc["origins"]:
                arr_ = getattr(built, "caller_arrays", {}).get((o["id"], "C"))
                if o["kind"] in ("ramp", "simple") and isinstance(arr_, _np.ndarray) and arr_.ndim == 1 and rng.random() < 0.7:
                    # the caller also overwrites the content of the capacity array it handed over (an incident)
                    o["C"] = round(rng.choice((0.0, 0.3, 0.6)) * o["C"] + rng.choice((0.0, 200.0)), 1)
                    arr_[...] = o["C"]
                    rec.count("capacity_arrays_overwritten_in_place")
            only = [] if rng.random() < 0.5 else list(built.links.values())
            via = rng.choice(drive.VIAS[1:])
            rec.count("steps_from_buffers_overwritten_in_place_without_reinitialisation")
            case = {"desc": desc, "vals": B, "pars": pars, "opts": {}, "engine": "numpy", "regime": regime, "shape": shp,
                    "stepped_via": via, "reinitialised": "nothing" if not only else "links only"}
            if before_case:
                before_case(case, built)
            try:
                drive.do_step(built.net, via, rng=rng, init_conditions=buffers, engine=eng, only_init=only, **drive.step_pars(pars))
            except Exception:
                pass
            if on_case:
                on_case(case, built)


def repo_tests(rec, props, prefix="repotests_"):
    """Runs the repository's own test-suite (subprocess, sym_metanet from $SMN_SRC) with
    the in-situ monitors of `props` recording; merges what they observed into `rec`
    (violations included; counters prefixed)."""
    import json
    import os
    import subprocess
    import tempfile

    from vf.env import REPO_DIR, SMN_SRC, VERIF_DIR

    tests_root = REPO_DIR if os.path.isdir(os.path.join(REPO_DIR, "tests")) else "/repo"
    fd, out = tempfile.mkstemp(prefix="vf_plugin_", suffix=".json")
    os.close(fd)
    env = dict(os.environ, PYTHONPATH=os.pathsep.join([SMN_SRC, VERIF_DIR]), VF_PLUGIN_PROPS=",".join(props),
               VF_PLUGIN_OUT=out, PYTHONDONTWRITEBYTECODE="1", SMN_SRC=SMN_SRC)
    try:
        subprocess.run(["/venv/bin/python", "-m", "pytest", "-q", "-p", "no:cacheprovider", "-p", "vf.pytest_plugin",
                        "--continue-on-collection-errors", "--timeout=600", "tests"],
                       cwd=tests_root, env=env, stdout=subprocess.DEVNULL, stderr=subprocess.DEVNULL, timeout=900)
        with open(out) as f:
            st = json.load(f)
    except Exception as e:
        rec.count(prefix + "failed_to_run")
        rec.seen(prefix + "failed_to_run", repr(e)[:150])
        return
    finally:
        try:
            os.unlink(out)
        except OSError:
            pass
    st["counters"] = {prefix + k: v for k, v in st["counters"].items()}
    st["cover"] = {prefix + k: v for k, v in st["cover"].items()}
    st["samples"] = []
    rec.merge_state(st)
