"""Plain network descriptions and the builder that turns one into a live
``sym_metanet.Network`` through the public construction API.

desc = {
  "nodes":   [node_id, ...],
  "links":   [{"id","name","up","down","N","lam","L","rho_max","rho_crit",
               "v_free","a","beta","vsl": None | [seg,...],"alpha"}, ...],
  "origins": [{"id","name","node","kind": ideal|main|ramp|simple,"C","eq"}, ...],
  "dests":   [{"id","name","node","kind": free|cong}, ...],
}
ids are what the reference works with; names are only labels given to the
library objects.
"""
import copy
import enum
import random


# --- call forms -------------------------------------------------------------------------
# The same public call may be written with its arguments by keyword or positionally in the documented
# order (docstrings / signatures of the pinned tree, recorded here).  FORMS["rng"] (set by ./check)
# chooses, per call, how many leading arguments are passed positionally; None = one fixed form.
FORMS = {"rng": None}
FORM_STATS = {}  # "<callable>: k leading arguments positional" -> number of calls (what was actually exercised)
ORDER = {
    "Link": ("nb_segments", "lanes", "length", "maximum_density", "critical_density", "free_flow_velocity", "a", "turnrate", "name"),
    "MeteredOnRamp": ("capacity", "flow_eq_type", "name"),
    "named": ("name",),
    "add_node": ("node",),
    "add_nodes": ("nodes",),
    "add_links": ("links",),
    "add_link": ("node_up", "link", "node_down"),
    "add_origin": ("origin", "node"),
    "add_destination": ("destination", "node"),
    "add_path": ("path", "origin", "destination"),
    "Network.step": ("init_conditions", "engine", "positive_init_speed", "positive_init_density", "positive_init_queue",
                     "positive_next_speed", "positive_next_density", "positive_next_queue"),
    "Link.init_vars": ("init_conditions", "engine", "positive_init_speed", "positive_init_density"),
    "LinkWithVsl.init_vars": ("init_conditions", "engine"),
    "Origin.init_vars": ("init_conditions", "engine", "positive_init_queue"),
    "Destination.init_vars": ("init_conditions", "engine"),
    "Link.step": ("net", "tau", "eta", "kappa", "T", "delta", "phi", "engine", "positive_next_speed", "positive_next_density"),
    "Origin.step": ("net", "T", "engine", "positive_next_queue"),
    "to_function": ("net", "compact", "more_out", "parameters"),
}


def callform(fn, order, values, default_k=0, extra=None, rng="default"):
    """Calls fn with `values` ({documented name: value}); the first k documented parameters positionally
    (k random when FORMS['rng'] is set, else default_k), the others by keyword.  extra: keyword-only /
    undocumented-order arguments, always by keyword."""
    r = FORMS["rng"] if rng == "default" else rng
    maxpos = 0
    for n in order:
        if n in values:
            maxpos += 1
        else:
            break
    k = min(default_k, maxpos) if r is None else (r.randint(0, maxpos) if r.random() < 0.7 else min(default_k, maxpos))
    args = [values[n] for n in order[:k]]
    kw = {n: v for n, v in values.items() if n not in order[:k]}
    if extra:
        kw.update(extra)
    key = f"{getattr(fn, '__qualname__', getattr(fn, '__name__', '?'))}: {k} positional"
    FORM_STATS[key] = FORM_STATS.get(key, 0) + 1
    return fn(*args, **kw)


class RampFlow(str, enum.Enum):
    """The variant names as members of a string enumeration (the usual idiom before `StrEnum`): each member IS a `str`
    equal to the documented name - only its `str()` / `repr()` read differently."""

    IN = "in"
    OUT = "out"
    LIMITED = "limited"
    UNLIMITED = "unlimited"


def fresh(s):
    """An equal string that is not the interned literal (as if read from a configuration file); now and then a member of a
    string enumeration or a NumPy string."""
    if not isinstance(s, str):
        return s
    r_ = FORMS["rng"].random() if FORMS.get("rng") is not None else 1.0
    if r_ < 0.15 and s in ("in", "out", "limited", "unlimited"):
        FORM_STATS["variant names given as members of a string enumeration"] = FORM_STATS.get("variant names given as members of a string enumeration", 0) + 1
        return RampFlow(s)
    if r_ < 0.22:
        import numpy as _np

        return _np.str_(s)
    return "".join(list(s))


class Built:
    """A live network with id -> object maps."""

    def __init__(self, net, nodes, links, origins, dests, desc):
        self.net = net
        self.nodes = nodes
        self.links = links
        self.origins = origins
        self.dests = dests
        self.desc = desc

    def el(self, i):
        for m in (self.links, self.origins, self.dests):
            if i in m:
                return m[i]
        raise KeyError(i)

    @property
    def elements(self):
        d = {}
        d.update(self.links)
        d.update(self.origins)
        d.update(self.dests)
        return d


def _maybe_falsy(cls):
    """Now and then the falsy user-defined twin of a stock kind (vf.userkinds)."""
    if FORMS["rng"] is None or FORMS["rng"].random() >= 0.08:
        return cls
    from vf import userkinds as UK

    import sym_metanet as M_

    FORM_STATS["falsy twins of stock kinds"] = FORM_STATS.get("falsy twins of stock kinds", 0) + 1
    return {M_.Link: UK.QuietLink, M_.LinkWithVsl: UK.CountingVslLink, M_.Destination: UK.QuietDestination,
            M_.CongestedDestination: UK.CountingCongestedDestination, M_.MainstreamOrigin: UK.QuietMainstream, M_.Origin: UK.CountingOrigin}.get(cls, cls)


def make_objects(M, desc, param_override=None, node_names=None):
    """Creates the library objects of a description (no network yet).

    param_override: {(element_id, attr): value} replaces a numeric parameter (used to
    make parameters symbolic).
    """
    po = dict(param_override or {})
    if desc.get("whole_numbers"):
        # whole-number parameters are written without a decimal point: Python ints
        for l in desc["links"]:
            for a in ("lam", "L", "rho_max", "rho_crit", "v_free", "a", "beta"):
                if (l["id"], a) not in po and float(l[a]).is_integer():
                    po[(l["id"], a)] = int(l[a])
        for o in desc["origins"]:
            if o.get("C") is not None and (o["id"], "C") not in po and float(o["C"]).is_integer():
                po[(o["id"], "C")] = int(o["C"])
    node_cls = M.Node
    if FORMS["rng"] is not None and FORMS["rng"].random() < 0.12:
        from vf import userkinds as UK

        node_cls = UK.Junction  # user-defined nodes that happen to be falsy
    nodes = {
        n: callform((node_cls if (node_cls is M.Node or FORMS["rng"].random() < 0.5) else M.Node), ORDER["named"],
                    {"name": (node_names or {}).get(n, n)}) for n in desc["nodes"]
    }
    for n in desc.get("falsy_nodes") or ():  # user-defined nodes that happen to be falsy, where the description asks for them
        from vf import userkinds as UK

        nodes[n] = UK.Junction(name=(node_names or {}).get(n, n))
    for n in sorted(set(desc.get("node_off") or {}) | set(desc.get("node_block") or {})):  # user-defined node kind with its own node rules
        from vf import userkinds as UK

        nodes[n] = UK.OffRampNode((node_names or {}).get(n, n), (desc.get("node_off") or {}).get(n, 0.0), (desc.get("node_block") or {}).get(n))
    links = {}
    for l in desc["links"]:
        g = lambda a, l=l: po.get((l["id"], a), l[a])  # noqa: E731
        vals = dict(zip(ORDER["Link"], (l["N"], g("lam"), g("L"), g("rho_max"), g("rho_crit"), g("v_free"), g("a"), g("beta"), l["name"])))
        if l.get("N_dtype"):
            # the segment counts of a down-cast link table (`table["segments"].astype(np.uint8)`)
            import numpy as _np

            vals["nb_segments"] = getattr(_np, l["N_dtype"])(l["N"])
        elif FORMS["rng"] is not None and FORMS["rng"].random() < 0.08:
            # the segment count read from a NumPy link table (`np.ceil(length / seg).astype(int)[i]`): a NumPy integer scalar
            import numpy as _np

            vals["nb_segments"] = FORMS["rng"].choice((_np.int64, _np.int32, _np.intp))(l["N"])
            FORM_STATS["segment counts given as NumPy integers"] = FORM_STATS.get("segment counts given as NumPy integers", 0) + 1
        if l.get("vsl") is not None:
            signs = set(l["vsl"])
            r_ = FORMS["rng"]
            if r_ is not None and r_.random() < 0.5:
                # the signs as a list / tuple the caller keeps (and goes on editing for the next link)
                signs = list(l["vsl"])
                r_.shuffle(signs)
                k_ = r_.random()
                if k_ < 0.3:
                    signs = tuple(signs)
                elif k_ < 0.5:
                    signs = (int(t) for t in ",".join(map(str, signs)).split(",") if t != "")  # parsed from a config string
                elif k_ < 0.6:
                    signs = iter(signs)
            links[l["id"]] = callform(_maybe_falsy(M.LinkWithVsl), ORDER["Link"], vals, 8,
                                      extra={"segments_with_vsl": signs, "alpha": g("alpha")})
            if isinstance(signs, list):
                if r_.random() < 0.5:
                    signs.clear()
                else:
                    signs.append(0)
                    signs.reverse()
        elif l.get("user_cap") is not None or l.get("user_reorder"):
            from vf import userkinds as UK

            links[l["id"]] = callform(UK.WorkZoneLink, ORDER["Link"], vals, 8,
                                      extra={"capacity": l.get("user_cap"), "reorder": bool(l.get("user_reorder"))})
        else:
            if FORMS["rng"] is not None and l["N"] > 1 and not l.get("N_dtype") and FORMS["rng"].random() < 0.07:
                # re-discretised after construction: built as ONE segment, the segment count (a plain public attribute, read
                # at every step) raised afterwards - grid refinement of a live link
                links[l["id"]] = callform(_maybe_falsy(M.Link), ORDER["Link"], dict(vals, nb_segments=1), 8)
                links[l["id"]].N = l["N"]
                FORM_STATS["links re-discretised after construction (N re-assigned)"] = FORM_STATS.get("links re-discretised after construction (N re-assigned)", 0) + 1
            else:
                links[l["id"]] = callform(_maybe_falsy(M.Link), ORDER["Link"], vals, 8)
    origins = {}
    for o in desc["origins"]:
        C = po.get((o["id"], "C"), o.get("C"))
        if o["kind"] == "ideal" and o.get("user"):
            from vf import userkinds as UK

            origins[o["id"]] = UK.BoundaryOrigin(flow=o.get("user_q"), speed=o.get("user_v"), name=o["name"])
        elif o["kind"] == "ideal":
            origins[o["id"]] = callform(_maybe_falsy(M.Origin), ORDER["named"], {"name": o["name"]})
        elif o["kind"] == "main" and o.get("user_cap_flow") is not None:
            from vf import userkinds as UK

            origins[o["id"]] = UK.TollPlaza(name=o["name"], cap=o["user_cap_flow"])
        elif o["kind"] == "main":
            origins[o["id"]] = callform(_maybe_falsy(M.MainstreamOrigin), ORDER["named"], {"name": o["name"]})
        elif o["kind"] in ("ramp", "simple"):
            cls = M.MeteredOnRamp if o["kind"] == "ramp" else M.SimplifiedMeteredOnRamp
            if FORMS["rng"] is not None and FORMS["rng"].random() < 0.12:
                # a user-defined kind derived from a concrete ramp kind (it carries something of its own):
                # a ramp in every respect
                from vf import userkinds as UK

                cls = UK.AlineaRamp if o["kind"] == "ramp" else UK.HovRamp
            origins[o["id"]] = callform(cls, ORDER["MeteredOnRamp"], {"capacity": C, "flow_eq_type": fresh(o["eq"]), "name": o["name"]}, 2)
        else:
            raise ValueError(o["kind"])
    dests = {}
    for d in desc["dests"]:
        cls = M.Destination if d["kind"] == "free" else M.CongestedDestination
        dests[d["id"]] = callform(_maybe_falsy(cls), ORDER["named"], {"name": d["name"]})
    return nodes, links, origins, dests


def default_ops(desc):
    ops = [("node", n) for n in desc["nodes"]]
    ops += [("link", l["id"]) for l in desc["links"]]
    ops += [("origin", o["id"]) for o in desc["origins"]]
    ops += [("dest", d["id"]) for d in desc["dests"]]
    return ops


def random_ops(desc, rng: random.Random):
    """A random construction schedule: permuted, nodes sometimes implicit, bulk and
    path forms mixed in."""
    ops = [("link", l["id"]) for l in desc["links"]]
    ops += [("origin", o["id"]) for o in desc["origins"]]
    ops += [("dest", d["id"]) for d in desc["dests"]]
    ops += [("node", n) for n in desc["nodes"] if rng.random() < 0.6]
    rng.shuffle(ops)
    # merge some adjacent link ops into bulk ops
    out = []
    i = 0
    while i < len(ops):
        if ops[i][0] == "link" and rng.random() < 0.35:
            j = i
            grp = []
            while j < len(ops) and ops[j][0] == "link" and len(grp) < 3:
                grp.append(ops[j][1])
                j += 1
            out.append(("links", tuple(grp)))
            i = j
        elif ops[i][0] == "link" and rng.random() < 0.3:
            out.append(("path", ops[i][1]))
            i += 1
        elif ops[i][0] == "node" and rng.random() < 0.3:
            out.append(("nodes", (ops[i][1],)))
            i += 1
        else:
            out.append(ops[i])
            i += 1
    return out


def build(M, desc, ops=None, param_override=None, node_names=None, net_name=None, reuse=None):
    """reuse: {id: existing object} - those elements/nodes are not created anew (the same element
    objects may live on in another network, or in the same one after a replacement)."""
    nodes, links, origins, dests = make_objects(M, desc, param_override, node_names)
    for table in (nodes, links, origins, dests):
        for k in table:
            if reuse and k in reuse:
                table[k] = reuse[k]
    net_cls = M.Network
    if FORMS["rng"] is not None and FORMS["rng"].random() < 0.15:
        from vf import userkinds as UK

        net_cls = UK.Motorway  # a user-defined Network subclass
    net = callform(net_cls, ORDER["named"], {"name": net_name})
    linkd = {l["id"]: l for l in desc["links"]}
    orgd = {o["id"]: o for o in desc["origins"]}
    dstd = {d["id"]: d for d in desc["dests"]}
    for op in ops or default_ops(desc):
        k = op[0]
        if k == "node":
            net.add_node(nodes[op[1]])
        elif k == "nodes":
            net.add_nodes([nodes[n] for n in op[1]])
        elif k == "link":
            l = linkd[op[1]]
            callform(net.add_link, ORDER["add_link"], {"node_up": nodes[l["up"]], "link": links[op[1]], "node_down": nodes[l["down"]]}, 3)
        elif k == "links":
            net.add_links(
                [
                    (nodes[linkd[i]["up"]], links[i], nodes[linkd[i]["down"]])
                    for i in op[1]
                ]
            )
        elif k == "path":
            l = linkd[op[1]]
            callform(net.add_path, ORDER["add_path"], {"path": (nodes[l["up"]], links[op[1]], nodes[l["down"]])}, 1)
        elif k == "origin":
            callform(net.add_origin, ORDER["add_origin"], {"origin": origins[op[1]], "node": nodes[orgd[op[1]]["node"]]}, 2)
        elif k == "dest":
            callform(net.add_destination, ORDER["add_destination"], {"destination": dests[op[1]], "node": nodes[dstd[op[1]]["node"]]}, 2)
        else:
            raise ValueError(op)
    return Built(net, nodes, links, origins, dests, desc)


def rename(desc, mapping):
    """Same description with other display names (ids unchanged)."""
    d = copy.deepcopy(desc)
    for grp in ("links", "origins", "dests"):
        for e in d[grp]:
            e["name"] = mapping.get(e["id"], e["name"])
    return d


# ---------------------------------------------------------------------------
# variable layout of an element (what the library declares)


def var_layout(desc):
    """{element id: {"states": [(name, n)], "actions": [...], "disturbances": [...]}}
    in the library's documented key order."""
    out = {}
    for l in desc["links"]:
        e = {"states": [("rho", l["N"]), ("v", l["N"])], "actions": [], "disturbances": []}
        if l.get("vsl") is not None:
            e["actions"] = [("v_ctrl", len(l["vsl"]))]
        out[l["id"]] = e
    for o in desc["origins"]:
        if o["kind"] == "ideal":
            out[o["id"]] = {"states": [], "actions": [], "disturbances": []}
        elif o["kind"] == "main":
            out[o["id"]] = {
                "states": [("w", 1)],
                "actions": [("v_ctrl", 1)],
                "disturbances": [("d", 1)],
            }
        elif o["kind"] == "ramp":
            out[o["id"]] = {
                "states": [("w", 1)],
                "actions": [("r", 1)],
                "disturbances": [("d", 1)],
            }
        else:
            out[o["id"]] = {
                "states": [("w", 1)],
                "actions": [("q", 1)],
                "disturbances": [("d", 1)],
            }
    for d in desc["dests"]:
        out[d["id"]] = {
            "states": [],
            "actions": [],
            "disturbances": [("d", 1)] if d["kind"] == "cong" else [],
        }
    return out


def signature(desc):
    """Coverage signature: sorted multiset of node classes + segment counts + cycle."""
    from vf.refmodel import topology

    ins, outs, org, dst = topology(desc)
    ncls = []
    for n in desc["nodes"]:
        selfloop = any(l["up"] == n and l["down"] == n for l in desc["links"])
        ncls.append(
            (
                min(len(ins[n]), 3),
                min(len(outs[n]), 3),
                org[n]["kind"] if n in org else "-",
                dst[n]["kind"] if n in dst else "-",
                selfloop,
            )
        )
    segs = tuple(sorted(min(l["N"], 4) for l in desc["links"]))
    vsl = tuple(sorted((len(l["vsl"]) if l.get("vsl") is not None else -1) for l in desc["links"]))
    return (tuple(sorted(ncls)), segs, vsl, has_cycle(desc))


def has_cycle(desc):
    adj = {n: [] for n in desc["nodes"]}
    for l in desc["links"]:
        adj[l["up"]].append(l["down"])
    color = {n: 0 for n in desc["nodes"]}

    def dfs(u):
        color[u] = 1
        for w in adj[u]:
            if color[w] == 1:
                return True
            if color[w] == 0 and dfs(w):
                return True
        color[u] = 2
        return False

    return any(color[n] == 0 and dfs(n) for n in desc["nodes"])
