"""pytest plugin: runs the repository's own test-suite with the in-situ monitors recording.

Loaded with ``-p vf.pytest_plugin``; which monitors are attached is chosen by
``VF_PLUGIN_PROPS`` (comma separated property ids); the recorder state is dumped as JSON to
``VF_PLUGIN_OUT`` when the session ends.  An independent workload and the standing
false-alarm audit: a contract that fires here is either too strict or a defect the tests
do not assert.
"""
import json
import os
import random

_S = {}


def pytest_configure(config):
    from vf import env

    M = env.setup()
    from vf.recorder import Recorder

    props = [p for p in os.environ.get("VF_PLUGIN_PROPS", "").split(",") if p]
    rec = Recorder("plugin", "quick", 0)
    _S.update(M=M, rec=rec, mons=[])
    import numpy as np

    np.seterr(all="ignore")
    if "C01" in props or "C02" in props:
        from vf import monitors, oracle as O
        from vf.checks import c01, c02

        deciders = []
        if "C01" in props:
            deciders.append(c01.decide)
        if "C02" in props:
            deciders.append(c02.decide)
        symvals = O.SymVals(random.Random(11))
        _S["mons"].append(monitors.StepMonitor(M, rec, symvals, deciders=deciders).install())
    if "C06" in props:
        from vf.checks import c06

        _S["mons"].append(c06.ValidMonitor(M, rec).install())
    if "C08" in props or "C09" in props:
        from vf import netmon

        netmon.set_recorder(rec)
        if "C08" in props:
            netmon.install_invariant(M)
        if "C09" in props:
            netmon.install_transitions(M)
    if "C15" in props:
        from vf import primmon

        _S["mons"].append(primmon.PrimMonitor(M, rec, "C15").install())


def pytest_runtest_setup(item):
    if "rec" in _S:
        _S["rec"].count("repo_tests_run")
        try:
            from vf import netmon

            netmon.new_history()
        except Exception:
            pass


def pytest_unconfigure(config):
    if "rec" not in _S:
        return
    for m in _S["mons"]:
        try:
            m.uninstall()
        except Exception:
            pass
    out = os.environ.get("VF_PLUGIN_OUT")
    if out:
        with open(out, "w") as f:
            json.dump(_S["rec"].dump_state(), f)
