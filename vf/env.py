"""Process environment for every check.

Imports ``sym_metanet`` from ``$SMN_SRC`` (default ``/repo/src``) *as it is on
disk now* and refuses to continue if the imported package lives elsewhere.
"""
import os
import sys

VERIF_DIR = os.path.dirname(os.path.dirname(os.path.abspath(__file__)))
SMN_SRC = os.path.abspath(os.environ.get("SMN_SRC", "/repo/src"))
REPO_DIR = os.path.dirname(SMN_SRC)
DEPS_DIR = os.path.join(VERIF_DIR, ".deps")

sys.dont_write_bytecode = True


class Inconclusive(Exception):
    """The run cannot decide (gate not reached, oracle self-check failed, ...)."""


def _ensure_deps() -> None:
    if not os.path.isdir(os.path.join(DEPS_DIR, "icontract")):
        import subprocess

        subprocess.run(
            [
                "/venv/bin/pip",
                "install",
                "-q",
                "--no-index",
                "--find-links",
                "/opt/veriftools/wheels",
                "--target",
                DEPS_DIR,
                "icontract",
            ],
            check=False,
            stdout=subprocess.DEVNULL,
            stderr=subprocess.DEVNULL,
        )
    if DEPS_DIR not in sys.path:
        sys.path.append(DEPS_DIR)


def setup():
    """Puts SMN_SRC first on sys.path, imports sym_metanet, verifies origin."""
    # drop any other location of sym_metanet (e.g. the editable install finder is
    # fine: it points to /repo/src as well, but SMN_SRC must win)
    if SMN_SRC in sys.path:
        sys.path.remove(SMN_SRC)
    sys.path.insert(0, SMN_SRC)
    if VERIF_DIR not in sys.path:
        sys.path.insert(1, VERIF_DIR)
    _ensure_deps()
    for m in [m for m in sys.modules if m == "sym_metanet" or m.startswith("sym_metanet.")]:
        del sys.modules[m]
    import sym_metanet

    f = os.path.abspath(sym_metanet.__file__)
    if not f.startswith(SMN_SRC + os.sep):
        raise Inconclusive(f"sym_metanet imported from {f}, expected under {SMN_SRC}")
    return sym_metanet


def src_file(rel: str) -> str:
    return os.path.join(SMN_SRC, "sym_metanet", rel)
