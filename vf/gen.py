"""Workload generators: valid topologies (forced shape classes + random), element
parameters (pairwise different), value regimes (boundary, tie and interior),
model parameters."""
import itertools
import math
import random

from vf.refmodel import topology, veq

SHAPES = (
    "chain",
    "bifurcation",
    "merge",
    "crossing",
    "ramp",
    "cycle2",
    "cycle",
    "ring",
    "single_seg",
    "lanedrop",
    "lanegain",
    "random",
    "random",
    "random",
    "random",
)


def is_valid_desc(desc):
    """The nine documented conditions on a description (ids unique by construction)."""
    ins, outs, org, dst = topology(desc)
    cnt_o, cnt_d = {}, {}
    for o in desc["origins"]:
        cnt_o[o["node"]] = cnt_o.get(o["node"], 0) + 1
    for d in desc["dests"]:
        cnt_d[d["node"]] = cnt_d.get(d["node"], 0) + 1
    if any(c > 1 for c in cnt_o.values()) or any(c > 1 for c in cnt_d.values()):
        return False
    for n in desc["nodes"]:
        ni, no = len(ins[n]), len(outs[n])
        ho, hd = n in org, n in dst
        if ho and hd:
            return False
        if ni == 0 and no == 0:
            return False
        if ni == 0 and not ho:
            return False
        if no == 0 and not hd:
            return False
        if ho:
            if org[n]["kind"] in ("ideal", "main") and ni > 0:
                return False
            if no > 1:
                return False
        if hd:
            if ni > 1 or no > 0:
                return False
    return True


class NetGen:
    def __init__(self, rng: random.Random):
        self.rng = rng

    # ---------------- topology ----------------
    def _core_edges(self, shape):
        r = self.rng
        if shape == "chain":
            k = r.randint(0, 3)
            return k, [(i, i + 1) for i in range(k - 1)]
        if shape in ("single_seg", "lanedrop", "lanegain"):
            k = r.randint(1, 3)
            return k, [(i, i + 1) for i in range(k - 1)]
        if shape == "bifurcation":
            return 1, []  # extra sinks added below
        if shape == "merge":
            return 1, []
        if shape == "crossing":
            return 1, []
        if shape == "ramp":
            k = r.randint(1, 3)
            return k, [(i, i + 1) for i in range(k - 1)]
        if shape == "cycle2":
            return 2, [(0, 1), (1, 0)]
        if shape == "cycle":
            k = r.randint(3, 5)
            e = [(i, (i + 1) % k) for i in range(k)]
            if r.random() < 0.5:
                e.append((0, 2))
            return k, e
        if shape == "ring":
            k = r.randint(1, 2)
            e = [(0, 0)]
            if k == 2:
                e += [(0, 1), (1, 0)] if r.random() < 0.5 else [(0, 1)]
            return k, e
        # random
        k = r.randint(1, 5)
        p = r.choice((0.15, 0.3, 0.45))
        e = [(i, j) for i in range(k) for j in range(k) if r.random() < p * (0.5 if i == j else 1)]
        return k, e

    def topology(self, shape=None, max_links=14):
        r = self.rng
        for _ in range(200):
            shape_ = shape or r.choice(SHAPES)
            k, edges = self._core_edges(shape_)
            nodes = [f"c{i}" for i in range(k)]
            E = [(f"c{i}", f"c{j}") for i, j in edges]
            sources, sinks = [], []

            def add_source(to):
                s = f"s{len(sources)}"
                sources.append(s)
                nodes.append(s)
                E.append((s, to))

            def add_sink(frm):
                t = f"t{len(sinks)}"
                sinks.append(t)
                nodes.append(t)
                E.append((frm, t))

            if k == 0:
                nodes.append("s0")
                sources.append("s0")
                nodes.append("t0")
                sinks.append("t0")
                E.append(("s0", "t0"))
            else:
                core = nodes[:k]
                if shape_ == "bifurcation":
                    add_source(core[0])
                    for _i in range(r.randint(2, 4)):
                        add_sink(core[0])
                elif shape_ == "merge":
                    for _i in range(r.randint(2, 4)):
                        add_source(core[0])
                    add_sink(core[0])
                elif shape_ == "crossing":
                    for _i in range(r.randint(2, 3)):
                        add_source(core[0])
                    for _i in range(r.randint(2, 3)):
                        add_sink(core[0])
                elif shape_ == "random":
                    for c in core:
                        if r.random() < 0.3:
                            add_source(c)
                        if r.random() < 0.3:
                            add_sink(c)
                for c in core:
                    if not any(w == c for _, w in E):
                        add_source(c)
                    if not any(u == c for u, _ in E):
                        add_sink(c)
                if shape_ in ("cycle2", "cycle", "ring") and r.random() < 0.6:
                    add_source(r.choice(core))
                    add_sink(r.choice(core))
            # subdivide some edges (creates 1-in/1-out interior nodes)
            if shape_ in ("random", "chain", "ramp", "lanedrop", "lanegain") or r.random() < 0.2:
                newE = []
                for (u, w) in E:
                    if r.random() < 0.25 and len(E) + len(newE) < max_links:
                        m = f"m{len(nodes)}"
                        nodes.append(m)
                        newE += [(u, m), (m, w)]
                    else:
                        newE.append((u, w))
                E = newE
            if len(E) > max_links or len(set(E)) != len(E):
                continue
            r.shuffle(nodes)
            r.shuffle(E)
            return shape_, nodes, E, sources, sinks
        raise RuntimeError("topology generation failed")

    # ---------------- full description ----------------
    def network(self, shape=None, force=None):
        """Returns (shape, desc).  ``force`` may contain: "vsl", "all_kinds"."""
        r = self.rng
        force = force or ()
        for _ in range(100):
            shape_, nodes, E, sources, sinks = self.topology(shape)
            used = set()

            def distinct(lo, hi, nd=3):
                for _i in range(1000):
                    x = round(r.uniform(lo, hi), nd)
                    if x not in used:
                        used.add(x)
                        return x
                return r.uniform(lo, hi)

            links = []
            for i, (u, w) in enumerate(E):
                if shape_ == "single_seg":
                    N = 1
                else:
                    N = r.choice((1, 1, 2, 2, 3, 4, 5))
                    if "long" in force and i == 0 or r.random() < 0.03:
                        N = r.choice((11, 12, 13))  # two-digit segment indices
                lam = r.choice((1, 2, 2, 3, 3, 4, 5))
                if r.random() < 0.15:
                    lam = round(r.uniform(1.0, 4.0), 2)
                vsl = None
                alpha = None
                if r.random() < 0.3 or "vsl" in force:
                    mode = r.random()
                    if mode < 0.15:
                        vsl = []
                    elif mode < 0.35:
                        vsl = list(range(N))
                    elif N >= 9 and mode < 0.7:
                        # a few signs spread over a long link (two-digit and one-digit indices together)
                        vsl = sorted(r.sample(range(N), r.randint(2, 4)))
                    else:
                        vsl = sorted(r.sample(range(N), r.randint(1, N)))
                    # non-compliance factor: zero, positive (drivers exceed the limit) or negative (enforced limits)
                    ra = r.random()
                    alpha = 0.0 if ra < 0.25 else (distinct(-0.2, -0.02) if ra < 0.45 else distinct(0.0, 0.3))
                links.append(
                    {
                        "id": f"L{i}",
                        "name": f"L{i}",
                        "up": u,
                        "down": w,
                        "N": N,
                        "lam": lam,
                        "L": distinct(0.4, 1.6),
                        "rho_max": distinct(160.0, 200.0, 2),
                        "rho_crit": distinct(25.0, 40.0, 2),
                        "v_free": distinct(90.0, 130.0, 2),
                        "a": distinct(1.2, 3.2),
                        "beta": distinct(0.1, 2.5),
                        "vsl": vsl,
                        "alpha": alpha,
                    }
                )
            if "homogeneous" in force or ("distinct" not in force and r.random() < 0.15):
                # real networks mostly repeat the same link parameters (the examples do): everything equal
                ref_l = dict(links[0])
                for l in links:
                    for k_ in ("lam", "L", "rho_max", "rho_crit", "v_free", "a", "beta"):
                        l[k_] = ref_l[k_]
                    if l["alpha"] is not None:
                        l["alpha"] = 0.1
            desc = {"nodes": list(nodes), "links": links, "origins": [], "dests": []}
            ins, outs, _, _ = topology(desc)
            if shape_ in ("lanedrop", "lanegain"):
                # force a lane change across some 1-out node
                for n in nodes:
                    if len(outs[n]) == 1 and ins[n]:
                        a, b = ins[n][0], outs[n][0]
                        if a is b:
                            continue
                        hi, lo = r.choice(((3, 2), (4, 2), (2, 1), (5, 3)))
                        a["lam"], b["lam"] = (hi, lo) if shape_ == "lanedrop" else (lo, hi)
            okinds = ["ideal", "main", "ramp", "simple"]
            oi = 0
            for n in nodes:
                ni, no = len(ins[n]), len(outs[n])
                kind = None
                if ni == 0:
                    kind = r.choice(okinds)
                elif no == 1 and ni >= 1:
                    p = 0.9 if shape_ == "ramp" else 0.35
                    if r.random() < p:
                        kind = r.choice(("ramp", "simple"))
                if kind is not None:
                    eq = None
                    C = None
                    if kind == "ramp":
                        eq = r.choice(("in", "out"))
                        C = distinct(1200.0, 4500.0, 1)
                    elif kind == "simple":
                        eq = r.choice(("limited", "limited", "unlimited"))
                        C = distinct(1200.0, 4500.0, 1)
                    desc["origins"].append(
                        {"id": f"O{oi}", "name": f"O{oi}", "node": n, "kind": kind, "C": C, "eq": eq}
                    )
                    oi += 1
            di = 0
            for n in nodes:
                if len(outs[n]) == 0:
                    desc["dests"].append(
                        {
                            "id": f"D{di}",
                            "name": f"D{di}",
                            "node": n,
                            "kind": r.choice(("free", "cong")),
                        }
                    )
                    di += 1
            if is_valid_desc(desc):
                # a "textbook" network: whole-number parameters, written as Python ints (percentages as turn
                # rates, 180 veh/km/lane, 2000 veh/h ...)
                if r.random() < 0.12:
                    desc["whole_numbers"] = True
                    for l_ in desc["links"]:
                        l_["lam"] = float(int(round(l_["lam"])) or 1)
                        l_["L"] = 1.0 if r.random() < 0.7 else l_["L"]
                        l_["rho_max"] = float(r.choice((160, 180, 200)))
                        l_["rho_crit"] = float(r.choice((30, 33, 35)))
                        l_["v_free"] = float(r.choice((100, 102, 120)))
                        if r.random() < 0.4:
                            l_["a"] = float(r.choice((2, 2, 3)))
                        l_["beta"] = float(r.choice((10, 15, 25, 40, 60, 75)))
                    for o_ in desc["origins"]:
                        if o_.get("C") is not None:
                            o_["C"] = float(r.choice((1500, 2000, 3000, 4000)))
                # turn rates given as fractions copied from a table with five decimals: they add up to
                # almost, not exactly, one
                for n in nodes:
                    if len(outs[n]) >= 2 and r.random() < 0.12:
                        ws = [r.uniform(0.2, 1.0) for _ in outs[n]]
                        tot = sum(ws)
                        for l_, w_ in zip(outs[n], ws):
                            l_["beta"] = math.floor(w_ / tot * 1e5) / 1e5
                return shape_, desc
        raise RuntimeError("network generation failed")

    def all_kinds_network(self):
        """A valid network that contains every element kind, every ramp variant and the
        node classes merge, bifurcation, interior ramp."""
        r = self.rng
        # s0(main) -> a ; s1(ideal) -> a ; s2(ramp-in) -> a ; a -> b (vsl) ; b[ramp-out] -> c
        # c -> t0 (free) ; c -> d ; d[simple-limited] -> e ; e -> t1 (cong);
        # s3(simple-unlimited) -> e2 -> c
        used = set()

        def distinct(lo, hi, nd=3):
            while True:
                x = round(r.uniform(lo, hi), nd)
                if x not in used:
                    used.add(x)
                    return x

        E = [
            ("s0", "a"),
            ("s1", "a"),
            ("s2", "a"),
            ("a", "b"),
            ("b", "c"),
            ("c", "t0"),
            ("c", "d"),
            ("d", "e"),
            ("e", "t1"),
            ("s3", "c"),
        ]
        nodes = ["s0", "s1", "s2", "a", "b", "c", "t0", "d", "e", "t1", "s3"]
        links = []
        for i, (u, w) in enumerate(E):
            N = r.choice((1, 2, 3, 4))
            vsl = None
            alpha = None
            if (u, w) in (("a", "b"), ("d", "e")) or r.random() < 0.2:
                vsl = sorted(r.sample(range(N), r.randint(1, N)))
                alpha = distinct(-0.2, -0.02) if r.random() < 0.25 else distinct(0.0, 0.3)
            links.append(
                {
                    "id": f"L{i}", "name": f"L{i}", "up": u, "down": w, "N": N,
                    "lam": r.choice((1, 2, 3, 4)),
                    "L": distinct(0.4, 1.6), "rho_max": distinct(160.0, 200.0, 2),
                    "rho_crit": distinct(25.0, 40.0, 2), "v_free": distinct(90.0, 130.0, 2),
                    "a": distinct(1.2, 3.2), "beta": distinct(0.1, 2.5),
                    "vsl": vsl, "alpha": alpha,
                }
            )
        origins = [
            {"id": "O0", "name": "O0", "node": "s0", "kind": "main", "C": None, "eq": None},
            {"id": "O1", "name": "O1", "node": "s1", "kind": "ideal", "C": None, "eq": None},
            {"id": "O2", "name": "O2", "node": "s2", "kind": "ramp", "C": distinct(1500, 4000, 1), "eq": "in"},
            {"id": "O3", "name": "O3", "node": "b", "kind": "ramp", "C": distinct(1500, 4000, 1), "eq": "out"},
            {"id": "O4", "name": "O4", "node": "d", "kind": "simple", "C": distinct(1500, 4000, 1), "eq": "limited"},
            {"id": "O5", "name": "O5", "node": "s3", "kind": "simple", "C": distinct(1500, 4000, 1), "eq": "unlimited"},
        ]
        dests = [
            {"id": "D0", "name": "D0", "node": "t0", "kind": "free"},
            {"id": "D1", "name": "D1", "node": "t1", "kind": "cong"},
        ]
        order = list(range(len(nodes)))
        r.shuffle(order)
        desc = {
            "nodes": [nodes[i] for i in order],
            "links": r.sample(links, len(links)),
            "origins": r.sample(origins, len(origins)),
            "dests": r.sample(dests, len(dests)),
        }
        assert is_valid_desc(desc)
        return desc

    # ---------------- model parameters ----------------
    def pars(self, delta=None, phi=None):
        r = self.rng
        p = {
            "T": r.choice((10.0, 10.0, 5.0, 15.0, 7.5)) / 3600.0,
            "tau": r.choice((18.0, 18.0, 20.0, 25.0)) / 3600.0,
            "eta": r.choice((60.0, 60.0, 30.0, 80.0)),
            "kappa": r.choice((40.0, 40.0, 20.0, 55.0)),
        }
        if delta is None:
            delta = r.random() < 0.6
        if phi is None:
            phi = r.random() < 0.6
        p["delta"] = r.choice((0.0122, 0.02, 0.8)) if delta else None
        p["phi"] = r.choice((1.0, 1.8, 2.5)) if phi else None
        return p

    # ---------------- values ----------------
    def values(self, desc, regime=None, allow_inf=True):
        """Admissible values for every declared variable of every element.

        regime: None (mixed), "interior", "zero", "jam", "boundary".
        """
        r = self.rng
        regime = regime or r.choice(("mixed", "mixed", "mixed", "interior", "boundary", "zero", "jam", "uniform"))
        uniform = None
        if regime == "uniform":  # the same state in every segment of the network (a typical initial condition)
            uniform = (r.choice((r.uniform(5.0, 30.0), r.uniform(40.0, 120.0))), r.uniform(20.0, 100.0))
        vals = {}
        ins, outs, org, dst = topology(desc)

        def rho_of(l):
            if uniform:
                return uniform[0]
            m = regime
            if m == "mixed":
                m = r.choice(("interior", "interior", "interior", "boundary"))
            if m == "zero":
                return 0.0
            if m == "jam":
                return r.choice((l["rho_max"], l["rho_max"], l["rho_crit"], l["rho_max"] * 1.05))
            if m == "boundary":
                return r.choice(
                    (0.0, l["rho_crit"], l["rho_max"], r.uniform(0.5, 5.0), l["rho_max"] * 1.05,
                     r.uniform(l["rho_crit"], l["rho_max"]))
                )
            return r.choice(
                (r.uniform(1.0, l["rho_crit"]), r.uniform(l["rho_crit"], l["rho_max"] * 0.95))
            )

        def v_of(l):
            if uniform:
                return uniform[1]
            m = regime
            if m == "mixed":
                m = r.choice(("interior", "interior", "interior", "boundary"))
            if m == "zero":
                return r.choice((0.0, 0.0, r.uniform(1, l["v_free"])))
            if m == "jam":
                return r.choice((0.0, r.uniform(0.5, 15.0)))
            if m == "boundary":
                return r.choice((0.0, l["v_free"], l["v_free"] * 1.1, r.uniform(0.1, 4.0),
                                 0.04 * l["v_free"], r.uniform(5.0, l["v_free"])))
            return r.uniform(5.0, l["v_free"])

        for l in desc["links"]:
            e = {"rho": [rho_of(l) for _ in range(l["N"])], "v": [v_of(l) for _ in range(l["N"])]}
            if l.get("vsl") is not None:
                vc = []
                for i in sorted(l["vsl"]):
                    V = veq(max(e["rho"][i], 0.0), l["v_free"], l["rho_crit"], l["a"])
                    ch = r.random()
                    if ch < 0.35:
                        vc.append(r.uniform(15.0, 70.0))  # usually binding
                    elif ch < 0.6:
                        vc.append(r.uniform(140.0, 220.0))  # slack
                    elif ch < 0.7 and allow_inf:
                        vc.append(math.inf)
                    elif ch < 0.8:
                        vc.append(V / (1.0 + l["alpha"]))  # (near-)tie
                    elif ch < 0.87:
                        vc.append(0.0)
                    else:
                        vc.append(r.uniform(1.0, 140.0))
                e["v_ctrl"] = vc
            vals[l["id"]] = e
        T_nom = 10.0 / 3600.0
        for o in desc["origins"]:
            if o["kind"] == "ideal":
                continue
            lk = outs[o["node"]][0]
            rho1 = vals[lk["id"]]["rho"][0]
            v1 = vals[lk["id"]]["v"][0]
            e = {}
            e["w"] = r.choice((0.0, 0.0, r.uniform(0.1, 30.0), r.uniform(30.0, 600.0)))
            e["d"] = r.choice((0.0, r.uniform(100.0, 2500.0), r.uniform(100.0, 2500.0), r.uniform(2500.0, 7000.0)))
            if regime == "zero":
                e["w"] = r.choice((0.0, e["w"]))
                e["d"] = r.choice((0.0, e["d"]))
            if o["kind"] == "main":
                ch = r.random()
                if ch < 0.3:
                    e["v_ctrl"] = r.uniform(10.0, 70.0)
                elif ch < 0.5:
                    e["v_ctrl"] = r.uniform(140.0, 250.0)
                elif ch < 0.6 and allow_inf:
                    e["v_ctrl"] = math.inf
                elif ch < 0.7:
                    e["v_ctrl"] = v1  # tie
                elif ch < 0.78:
                    e["v_ctrl"] = 0.0
                elif ch < 0.86:
                    e["v_ctrl"] = 0.03 * lk["v_free"]  # below the log guard
                else:
                    e["v_ctrl"] = lk["v_free"] * math.exp(-1.0 / lk["a"])  # V(rho_crit)
            elif o["kind"] == "ramp":
                e["r"] = r.choice((0.0, 1.0, 1.0, r.uniform(0.0, 1.0), r.uniform(0.0, 1.0)))
                if r.random() < 0.12:
                    # exact tie demand == capacity when there is space
                    e["w"] = 0.0
                    e["d"] = o["C"] * (e["r"] if o["eq"] == "in" and rho1 <= lk["rho_crit"] else 1.0)
            else:
                ch = r.random()
                if ch < 0.15:
                    e["q"] = 0.0
                elif ch < 0.3 and allow_inf and o["eq"] == "limited":
                    e["q"] = math.inf
                else:
                    e["q"] = r.uniform(50.0, 4000.0)
                if r.random() < 0.1:
                    e["w"] = 0.0
                    e["d"] = e["q"] if math.isfinite(e["q"]) else o["C"]
            vals[o["id"]] = e
        for d in desc["dests"]:
            if d["kind"] == "cong":
                lk = ins[d["node"]][0]
                vals[d["id"]] = {
                    "d": r.choice(
                        (0.0, r.uniform(1.0, lk["rho_crit"]), lk["rho_crit"],
                         r.uniform(lk["rho_crit"], lk["rho_max"]),
                         min(vals[lk["id"]]["rho"][-1], lk["rho_crit"]))
                    )
                }
        return regime, vals


def all_digraphs(n):
    """All labelled digraphs with self-loops on n nodes, as edge lists."""
    pairs = [(i, j) for i in range(n) for j in range(n)]
    for mask in range(1 << len(pairs)):
        yield [pairs[k] for k in range(len(pairs)) if mask >> k & 1]


def role_assignments(n, origin_roles=("none", "ideal", "ramp"), dest_roles=("none", "dest")):
    for combo in itertools.product(itertools.product(origin_roles, dest_roles), repeat=n):
        yield combo


def all_valid_small(nmax, rng, kinds_full=True):
    """Every valid (topology, role assignment) on 1..nmax labelled nodes, self-loops
    included; element parameters drawn at random (pairwise different)."""
    g = NetGen(rng)
    for n in range(1, nmax + 1):
        for edges in all_digraphs(n):
            if not edges:
                continue
            indeg = [0] * n
            outdeg = [0] * n
            for (i, j) in edges:
                outdeg[i] += 1
                indeg[j] += 1
            opts = []
            ok = True
            for v in range(n):
                if indeg[v] == 0 and outdeg[v] == 0:
                    ok = False
                    break
                if indeg[v] == 0:
                    if outdeg[v] != 1:
                        ok = False
                        break
                    opts.append([("o", k) for k in (("ideal", "main", "ramp", "simple") if kinds_full else ("ideal", "ramp"))])
                elif outdeg[v] == 0:
                    if indeg[v] != 1:
                        ok = False
                        break
                    opts.append([("d", k) for k in ("free", "cong")])
                elif outdeg[v] == 1:
                    opts.append([("-", None), ("o", "ramp"), ("o", "simple")])
                else:
                    opts.append([("-", None)])
            if not ok:
                continue
            for combo in itertools.product(*opts):
                used = set()

                def distinct(lo, hi, nd=3):
                    while True:
                        x = round(rng.uniform(lo, hi), nd)
                        if x not in used:
                            used.add(x)
                            return x

                links = []
                for i, (u, w) in enumerate(edges):
                    N = rng.choice((1, 2, 3))
                    vsl = None
                    alpha = None
                    if rng.random() < 0.25:
                        vsl = sorted(rng.sample(range(N), rng.randint(0, N)))
                        alpha = distinct(-0.2, -0.02) if rng.random() < 0.25 else distinct(0.0, 0.3)
                    links.append({
                        "id": f"L{i}", "name": f"L{i}", "up": f"n{u}", "down": f"n{w}", "N": N,
                        "lam": rng.choice((1, 2, 3, 4)), "L": distinct(0.4, 1.6),
                        "rho_max": distinct(160.0, 200.0, 2), "rho_crit": distinct(25.0, 40.0, 2),
                        "v_free": distinct(90.0, 130.0, 2), "a": distinct(1.2, 3.2),
                        "beta": distinct(0.1, 2.5), "vsl": vsl, "alpha": alpha})
                desc = {"nodes": [f"n{v}" for v in range(n)], "links": links, "origins": [], "dests": []}
                for v, (role, kind) in enumerate(combo):
                    if role == "o":
                        eq, C = None, None
                        if kind == "ramp":
                            eq, C = rng.choice(("in", "out")), distinct(1200.0, 4500.0, 1)
                        elif kind == "simple":
                            eq, C = rng.choice(("limited", "unlimited")), distinct(1200.0, 4500.0, 1)
                        i = len(desc["origins"])
                        desc["origins"].append({"id": f"O{i}", "name": f"O{i}", "node": f"n{v}", "kind": kind, "C": C, "eq": eq})
                    elif role == "d":
                        i = len(desc["dests"])
                        desc["dests"].append({"id": f"D{i}", "name": f"D{i}", "node": f"n{v}", "kind": kind})
                assert is_valid_desc(desc), desc
                yield desc


def add_user_kinds(desc, rng, p_origin=0.7, p_link=0.5):
    """Some elements become user-defined kinds (vf/userkinds.py): ideal origins prescribe a boundary flow
    and/or speed; plain links cap their segment flows and/or return their results in another key order.
    Returns the number of elements changed (the description is modified in place)."""
    k = 0
    for o in desc["origins"]:
        if o["kind"] == "ideal" and rng.random() < p_origin:
            o["user"] = True
            o["user_q"] = round(rng.uniform(200.0, 3500.0), 1) if rng.random() < 0.7 else None
            o["user_v"] = round(rng.uniform(15.0, 115.0), 2) if rng.random() < 0.7 else None
            if o["user_q"] is None and o["user_v"] is None:
                o["user_v"] = 60.0
            k += 1
    for o in desc["origins"]:
        if o["kind"] == "main" and rng.random() < p_origin:
            o["user_cap_flow"] = round(rng.uniform(400.0, 4500.0), 1)
            k += 1
    for l in desc["links"]:
        if l.get("vsl") is None and rng.random() < p_link:
            l["user_cap"] = round(l["lam"] * rng.uniform(600.0, 2600.0), 1) if rng.random() < 0.7 else None
            l["user_reorder"] = rng.random() < 0.6
            if l["user_cap"] is None and not l["user_reorder"]:
                l["user_reorder"] = True
            k += 1
    return k


RAMP_VARIANTS = (("ramp", "in"), ("ramp", "out"), ("simple", "limited"), ("simple", "unlimited"))


def set_interior_ramps(desc, variant):
    """The on-ramps at nodes that have entering links become the given (kind, flow equation) variant.
    Returns the number of ramps changed."""
    entered = {l["down"] for l in desc["links"]}
    k = 0
    for o in desc["origins"]:
        if o["node"] in entered and o["kind"] in ("ramp", "simple"):
            o["kind"], o["eq"] = variant
            k += 1
    return k


def clash_names(desc, rng):
    """Same description with element NAMES chosen so that different (element, variable) pairs
    spell the same '<variable>_<element name>': a mainstream origin and a speed-limited link with
    one name (both carry v_ctrl), a queued origin and a congested destination with one name (both
    carry d), and a plain link called 'ctrl_<X>' next to a speed-limited link called '<X>' (state v
    of the first vs action v_ctrl of the second).  Element uniqueness is by object, so the network
    stays valid.  Returns (desc', number of clashes created)."""
    import copy

    d = copy.deepcopy(desc)
    n = 0
    vsl = [l for l in d["links"] if l.get("vsl") is not None]
    plain = [l for l in d["links"] if l.get("vsl") is None]
    mains = [o for o in d["origins"] if o["kind"] == "main"]
    queued = [o for o in d["origins"] if o["kind"] in ("ramp", "simple")]
    congs = [x for x in d["dests"] if x["kind"] == "cong"]
    if mains and vsl:
        mains[0]["name"] = vsl[0]["name"] = "A13"
        n += 1
    if queued and congs:
        queued[0]["name"] = congs[0]["name"] = "E"
        n += 1
    if len(vsl) >= 2 and plain:
        vsl[1]["name"] = "S"
        plain[0]["name"] = "ctrl_S"
        n += 1
    elif vsl and plain and not mains:
        vsl[0]["name"] = "S"
        plain[0]["name"] = "ctrl_S"
        n += 1
    return d, n


def redraw_link_params(desc, rng):
    """Same topology and element kinds, other link objects' parameters (incl. segment counts)."""
    import copy

    d = copy.deepcopy(desc)
    for l in d["links"]:
        l["N"] = rng.choice((1, 2, 3, 4))
        l["lam"] = rng.choice((1, 2, 3, 4))
        l["L"] = round(rng.uniform(0.4, 1.6), 3)
        l["rho_max"] = round(rng.uniform(160.0, 200.0), 2)
        l["rho_crit"] = round(rng.uniform(25.0, 40.0), 2)
        l["v_free"] = round(rng.uniform(90.0, 130.0), 2)
        l["a"] = round(rng.uniform(1.2, 3.2), 3)
        if l.get("vsl") is not None:
            l["vsl"] = sorted(rng.sample(range(l["N"]), rng.randint(0, l["N"])))
    return d
