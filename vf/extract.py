"""Recovers a plain description from a live ``Network`` using only the raw networkx
graph (``G.nodes``, ``G.pred``, ``G.succ``, attribute dicts) — never through the
network's own lookups, views or caches, which are among the things being checked.
"""
LINK, ORIGIN, DEST = "link", "origin", "destination"


def raw_graph(net):
    return net._graph


def declared_ramp_only(M, o):
    """A kind that IS a ramp for `isinstance` (ABC.register) without inheriting anything from the ramp classes."""
    return isinstance(o, M.MeteredOnRamp) and M.MeteredOnRamp not in type(o).__mro__


def _kind_of_origin(M, o):
    # most-derived first
    virtual = declared_ramp_only(M, o)
    if isinstance(o, M.SimplifiedMeteredOnRamp) and not virtual:
        return "simple"
    if isinstance(o, M.MeteredOnRamp) and not virtual:
        return "ramp"
    if isinstance(o, M.MainstreamOrigin):
        return "main"
    if isinstance(o, M.Origin):
        return "ideal"
    return "unknown"


def _kind_of_dest(M, d):
    if isinstance(d, M.CongestedDestination):
        return "cong"
    if isinstance(d, M.Destination):
        return "free"
    return "unknown"


def extract(M, net, num=float):
    """Returns (desc, objmap) where objmap maps ids to library objects and
    ``objmap['#rev']`` maps id(object) to its id.  ``num`` converts a parameter to a
    float (identity-like for numbers; an evaluator for symbolic parameters)."""
    G = raw_graph(net)
    nodes = list(G.nodes)
    nid = {id(n): f"n{i}" for i, n in enumerate(nodes)}
    desc = {"nodes": [nid[id(n)] for n in nodes], "links": [], "origins": [], "dests": []}
    objmap = {nid[id(n)]: n for n in nodes}
    off = {nid[id(n)]: num(n.beta_off) for n in nodes if getattr(n, "_vf_user", False) and hasattr(n, "beta_off")}
    if off:  # user-defined node kind with its own node rule (vf/userkinds.OffRampNode)
        desc["node_off"] = off
    blk = {nid[id(n)]: num(n.rho_block) for n in nodes if getattr(n, "_vf_user", False) and getattr(n, "rho_block", None) is not None}
    if blk:
        desc["node_block"] = blk
    rev = {}
    k = 0
    for u in nodes:
        for w, data in G.succ[u].items():
            l = data[LINK]
            lid = f"l{k}"
            k += 1
            vsl = getattr(l, "vsl", None) if isinstance(l, M.LinkWithVsl) else None
            desc["links"].append(
                {
                    "id": lid,
                    "name": l.name,
                    "up": nid[id(u)],
                    "down": nid[id(w)],
                    "N": int(l.N),
                    "lam": num(l.lam),
                    "L": num(l.L),
                    "rho_max": num(l.rho_max),
                    "rho_crit": num(l.rho_crit),
                    "v_free": num(l.v_free),
                    "a": num(l.a),
                    "beta": num(l.turnrate),
                    "vsl": (list(vsl) if vsl is not None else None),
                    "vsl_live_order": True,  # read off the live object: the order it holds is the order it uses
                    "alpha": (num(l.alpha) if vsl is not None else None),
                }
            )
            if getattr(l, "_vf_user", False):  # a user-defined link kind of the harness (vf/userkinds.py)
                desc["links"][-1]["user_cap"] = (num(l.capacity) if l.capacity is not None else None)
                desc["links"][-1]["user_reorder"] = bool(l.reorder)
            objmap[lid] = l
            rev[id(l)] = lid
    k = 0
    for n in nodes:
        data = G.nodes[n]
        if ORIGIN in data:
            o = data[ORIGIN]
            oid = f"o{k}"
            k += 1
            kind = _kind_of_origin(M, o)
            desc["origins"].append(
                {
                    "id": oid,
                    "name": o.name,
                    "node": nid[id(n)],
                    "kind": kind,
                    "C": (num(o.C) if kind in ("ramp", "simple") else None),
                    # (the plain characters: a member of a string enumeration or a NumPy string reads the same)
                    "eq": (("".join(o.flow_eq_type) if isinstance(o.flow_eq_type, str) else o.flow_eq_type) if kind in ("ramp", "simple") else None),
                }
            )
            if kind == "main" and getattr(o, "_vf_user", False) and hasattr(o, "cap"):  # user kind derived from the mainstream origin
                desc["origins"][-1]["user_cap_flow"] = (num(o.cap) if o.cap is not None else None)
            if kind == "ideal" and getattr(o, "_vf_user", False) and hasattr(o, "flow"):  # user-defined boundary origin (vf/userkinds.py)
                desc["origins"][-1]["user"] = True
                desc["origins"][-1]["user_q"] = (num(o.flow) if o.flow is not None else None)
                desc["origins"][-1]["user_v"] = (num(o.speed) if o.speed is not None else None)
            if declared_ramp_only(M, o):  # asked now, with the library's own test: what a kind is can change (late registration)
                desc["origins"][-1]["declared_ramp"] = True
            objmap[oid] = o
            rev[id(o)] = oid
    k = 0
    for n in nodes:
        data = G.nodes[n]
        if DEST in data:
            d = data[DEST]
            did = f"d{k}"
            k += 1
            desc["dests"].append(
                {"id": did, "name": d.name, "node": nid[id(n)], "kind": _kind_of_dest(M, d)}
            )
            objmap[did] = d
            rev[id(d)] = did
    objmap["#rev"] = rev
    return desc, objmap


# ---------------------------------------------------------------------------
# the nine documented validity conditions, evaluated literally on the raw graph


def validity_conditions(M, net):
    """Returns the set of violated condition numbers (1..9)."""
    G = raw_graph(net)
    bad = set()
    # (1) a link, origin or destination is duplicated in the network
    seen = []

    def dup(o):
        for s in seen:
            if s is o or s == o:
                return True
        seen.append(o)
        return False

    for u in G.nodes:
        for w, data in G.succ[u].items():
            if dup(data[LINK]):
                bad.add(1)
    for n in G.nodes:
        data = G.nodes[n]
        for entry in (ORIGIN, DEST):
            if entry in data and dup(data[entry]):
                bad.add(1)
    for n in G.nodes:
        data = G.nodes[n]
        n_in = len(G.pred[n])
        n_out = len(G.succ[n])
        has_o = ORIGIN in data
        has_d = DEST in data
        if has_o and has_d:
            bad.add(2)
        if n_in == 0 and n_out == 0:
            bad.add(3)
        if n_in == 0 and not has_o:
            bad.add(4)
        if n_out == 0 and not has_d:
            bad.add(5)
        if has_o:
            if not isinstance(data[ORIGIN], M.MeteredOnRamp) and n_in > 0:
                bad.add(6)
            if n_out > 1:
                bad.add(7)
        if has_d:
            if n_in > 1:
                bad.add(8)
            if n_out > 0:
                bad.add(9)
    return bad


# ---------------------------------------------------------------------------
# ground truth of every public lookup, recomputed from the raw graph


def lookups_truth(net):
    """What each lookup must contain, as lists of (key, value) *facts*.  For maps
    whose keys can collide (names, shared objects) the truth is the multimap."""
    G = raw_graph(net)
    t = {}
    t["nodes_by_name"] = [(n.name, n) for n in G.nodes]
    links = [(u, w, data[LINK]) for u in G.nodes for w, data in G.succ[u].items()]
    t["links"] = links
    t["links_by_name"] = [(l.name, l) for _, _, l in links]
    t["nodes_by_link"] = [(l, (u, w)) for u, w, l in links]
    orgs = [(G.nodes[n][ORIGIN], n) for n in G.nodes if ORIGIN in G.nodes[n]]
    dsts = [(G.nodes[n][DEST], n) for n in G.nodes if DEST in G.nodes[n]]
    t["origins"] = orgs
    t["origins_by_name"] = [(o.name, o) for o, _ in orgs]
    t["origins_by_node"] = [(n, o) for o, n in orgs]
    t["destinations"] = dsts
    t["destinations_by_name"] = [(d.name, d) for d, _ in dsts]
    t["destinations_by_node"] = [(n, d) for d, n in dsts]
    t["in"] = {id(n): [(u, n, G.pred[n][u][LINK]) for u in G.pred[n]] for n in G.nodes}
    t["out"] = {id(n): [(n, w, G.succ[n][w][LINK]) for w in G.succ[n]] for n in G.nodes}
    return t
