"""In-situ monitors on the engine primitives (C15, C17, C18).

Every call of a NumPy primitive with numeric arguments is shadow-evaluated by the
*original* CasADi primitive on ``DM`` copies, and every call of a CasADi primitive with
``DM``/number arguments by the original NumPy primitive.  Extra deciders (bounds of the
origin flows, neutral-control relations) can be attached per primitive.
"""
import functools
import math

import numpy as np

PRIMS = {
    "nodes": ("get_upstream_flow", "get_upstream_speed", "get_downstream_density"),
    "links": ("get_flow", "step_density", "step_speed", "Veq", "controlled_Veq"),
    "origins": ("step_queue", "get_mainstream_flow", "get_ramp_flow", "get_simplifiedramp_flow"),
    "destinations": ("get_congestion_free_downstream_density", "get_congested_downstream_density"),
}
CLASSNAME = {"nodes": "NodesEngine", "links": "LinksEngine", "origins": "OriginsEngine",
             "destinations": "DestinationsEngine"}


def _is_sym(x):
    import casadi as cs

    return isinstance(x, (cs.SX, cs.MX))


def _is_dm(x):
    import casadi as cs

    return isinstance(x, cs.DM)


def to_dm(x):
    import casadi as cs

    if isinstance(x, np.ndarray):
        if x.ndim == 0:
            return float(x)
        return cs.DM(x.astype(float).ravel().tolist())
    if isinstance(x, str):  # np.str_ is both a str and a numpy scalar
        return x
    if isinstance(x, np.generic):
        return float(x)
    return x


# positional arguments that are per-segment / per-link vectors (kept as 1-D arrays when a DM is
# converted for the NumPy side); every other 1x1 DM is a scalar parameter or an origin /
# destination quantity and becomes a float, which is what the element layer passes there
VECTOR_ARGS = {
    "get_upstream_flow": (0, 2), "get_upstream_speed": (0, 1), "get_downstream_density": (0,),
    "get_flow": (0, 1), "step_density": (0, 1, 2), "step_speed": (0, 1, 2, 3, 4), "Veq": (0,),
    "controlled_Veq": (0, 1), "max": (0, 1), "vcat": tuple(range(16)),
}


def to_np(x, vector=True):
    if _is_dm(x):
        a = np.asarray(x, dtype=float).reshape(-1).copy()
        if not vector and a.size == 1:
            return float(a[0])
        return a
    return x


def flat(x):
    if x is None:
        return None
    if _is_dm(x):
        return [float(t) for t in np.asarray(x, dtype=float).ravel()]
    return [float(t) for t in np.asarray(x, dtype=float).ravel()]


def shape_tag(x):
    if isinstance(x, np.ndarray):
        return "0d" if x.ndim == 0 else ("len1" if x.shape == (1,) else "lenN")
    if isinstance(x, str):
        return "other"
    if isinstance(x, (np.generic, float, int)):
        return "0d"
    if _is_dm(x):
        return "len1" if x.numel() == 1 else "lenN"
    return "other"


def numeric_args_ok(args, kwargs):
    """All array-like arguments are finite or +inf numbers (no NaN, no symbols)."""
    for a in list(args) + list(kwargs.values()):
        if a is None or isinstance(a, (str, list, tuple, set, slice, range)):
            continue
        if _is_sym(a):
            return False
        try:
            f = flat(a)
        except Exception:
            return False
        if any(math.isnan(t) or t == -math.inf for t in f):
            return False
    return True


class PrimMonitor:
    def __init__(self, M, rec, prop="C15"):
        self.M, self.rec, self.prop = M, rec, prop
        self.saved = []
        self.extra = {}  # primitive name -> [decider(engine_kind, args, kwargs, result, rec)]
        self.depth = 0
        self.shadow = True
        self.enabled = True

    def add_decider(self, prim, fn):
        self.extra.setdefault(prim, []).append(fn)

    def install(self):
        import sym_metanet.engines.casadi as EC
        import sym_metanet.engines.numpy as EN

        self.EN, self.EC = EN, EC
        for grp, names in PRIMS.items():
            cn = CLASSNAME[grp]
            ncls, ccls = getattr(EN, cn), getattr(EC, cn)
            for name in names:
                nf = ncls.__dict__[name].__func__
                cf = ccls.__dict__[name].__func__
                self.saved.append((ncls, name, ncls.__dict__[name]))
                self.saved.append((ccls, name, ccls.__dict__[name]))
                setattr(ncls, name, staticmethod(self._wrap(name, "numpy", nf, cf)))
                setattr(ccls, name, staticmethod(self._wrap(name, "casadi", cf, nf)))
        # engine-level max / vcat
        for name in ("max", "vcat"):
            nf, cf = EN.Engine.__dict__[name], EC.Engine.__dict__[name]
            self.saved.append((EN.Engine, name, nf))
            self.saved.append((EC.Engine, name, cf))
            setattr(EN.Engine, name, self._wrap_method(name, "numpy", nf, cf))
            setattr(EC.Engine, name, self._wrap_method(name, "casadi", cf, nf))
        return self

    def uninstall(self):
        for cls, name, orig in reversed(self.saved):
            setattr(cls, name, orig)
        self.saved = []

    # ------------------------------------------------------------------
    def _wrap(self, name, kind, f, other):
        mon = self

        @functools.wraps(f)
        def w(*args, **kwargs):
            if mon.depth or not mon.enabled:
                return f(*args, **kwargs)
            mon.depth += 1
            try:
                res = f(*args, **kwargs)
            finally:
                mon.depth -= 1
            try:
                mon._observe(name, kind, other, args, kwargs, res, None)
            except Exception as e:
                mon.rec.count("monitor_internal_errors")
                mon.rec.seen("monitor_internal_errors", f"{name}:{e!r}"[:200])
            return res

        return w

    def _wrap_method(self, name, kind, f, other):
        mon = self

        @functools.wraps(f)
        def w(self_, *args, **kwargs):
            if mon.depth:
                return f(self_, *args, **kwargs)
            mon.depth += 1
            try:
                res = f(self_, *args, **kwargs)
            finally:
                mon.depth -= 1
            try:
                mon._observe(name, kind, other, args, kwargs, res, self_)
            except Exception as e:
                mon.rec.count("monitor_internal_errors")
                mon.rec.seen("monitor_internal_errors", f"{name}:{e!r}"[:200])
            return res

        return w

    def _observe(self, name, kind, other, args, kwargs, res, eng):
        rec = self.rec
        if not numeric_args_ok(args, kwargs):
            rec.count("calls_with_symbolic_or_nan_args")
            return
        if kind == "casadi" and not all(
            _is_dm(a) or a is None or isinstance(a, (int, float, str, list, tuple, slice, range, np.generic, np.ndarray))
            for a in list(args) + list(kwargs.values())
        ):
            return
        rec.count("primitive_calls_observed")
        for fn in self.extra.get(name, ()):
            fn(kind, args, kwargs, res, rec)
        if not self.shadow:
            return
        if kind == "numpy":
            a2 = [to_dm(a) for a in args]
            k2 = {k: to_dm(v) for k, v in kwargs.items()}
        else:
            vecs = VECTOR_ARGS.get(name, ())
            a2 = [to_np(a, i in vecs) for i, a in enumerate(args)]
            k2 = {k: to_np(v, False) for k, v in kwargs.items()}
        self.depth += 1
        try:
            if eng is None:
                r2 = other(*a2, **k2)
            else:
                oe = self.EC.Engine("SX") if kind == "numpy" else self.EN.Engine()
                r2 = other(oe, *a2, **k2)
            err = None
        except Exception as e:
            r2, err = None, e
        finally:
            self.depth -= 1
        direction = "numpy->casadi" if kind == "numpy" else "casadi->numpy"
        shapes = tuple(shape_tag(a) for a in args if not isinstance(a, (str, list, slice, range, type(None))))
        rec.seen("prim_x_direction", (name, direction))
        rec.seen("prim_x_shapes", (name, shapes))
        if err is not None:
            rec.violation(
                f"{self.prop}:{name}: {'CasADi' if kind == 'numpy' else 'NumPy'} implementation raised "
                f"{type(err).__name__} on arguments the other engine accepts (shapes {shapes})",
                {"primitive": name, "direction": direction, "args": _show(args), "kwargs": _show(kwargs),
                 "exception": repr(err)[:300]},
            )
            return
        f1, f2 = flat(res), flat(r2)
        rec.count("shadow_evaluations")
        if len(f1) != len(f2):
            rec.violation(f"{self.prop}:{name}: result sizes differ between engines (shapes {shapes})",
                          {"primitive": name, "direction": direction, "args": _show(args), "kwargs": _show(kwargs),
                           "first": f1, "second": f2})
            return
        for i, (x, y) in enumerate(zip(f1, f2)):
            if x == y or (math.isnan(x) and math.isnan(y)):
                continue
            if not (abs(x - y) <= 1e-9 * (1.0 + abs(x) + abs(y))):
                variant = kwargs.get("type") or next((a for a in args if isinstance(a, str)), "")
                rec.violation(
                    f"{self.prop}:{name}{'[' + variant + ']' if variant else ''}: NumPy and CasADi values differ",
                    {"primitive": name, "direction": direction, "args": _show(args), "kwargs": _show(kwargs),
                     "index": i, "first_engine": kind, "first": f1, "second": f2},
                )
                return


def _show(a):
    if isinstance(a, dict):
        return {k: _show(v) for k, v in a.items()}
    if isinstance(a, (list, tuple)):
        return [_show(v) for v in a]
    if a is None or isinstance(a, (str, int, float)):
        return a
    try:
        return flat(a)
    except Exception:
        return repr(a)
