"""Monitors on the graph layer of ``Network`` (C08, C09).

* ``install_invariant``: icontract class invariant on ``Network`` — after every public
  call every memo entry present in ``net.__dict__`` must equal its recomputation from the
  raw graph (sound only where element objects/names are shared).
* ``install_transitions``: icontract postconditions with ``OLD`` graph snapshots on
  add_node(s)/add_link(s)/add_origin/add_destination — the graph after the call must be
  exactly the graph the call's specification produces from the graph before.
* ``check_lookups``: reads every public lookup and compares with the ground truth.

All conditions record and return True.
"""
from vf import extract as X

MEMOS = ("nodes_by_name", "links_by_name", "nodes_by_link", "origins", "origins_by_name",
         "origins_by_node", "destinations", "destinations_by_name", "destinations_by_node")

_STATE = {"rec": None, "prop8": "C08", "prop9": "C09", "last_op": None, "installed_inv": False,
          "installed_tr": False, "enabled": True}


def set_recorder(rec):
    _STATE["rec"] = rec


def set_last_op(op):
    _STATE["last_op"] = op


# ---------------------------------------------------------------------------
# comparing one mapping with its truth


def _cmp_map(name, got, facts, ambiguous=False):
    """Returns None if consistent, else a short reason.  facts: list of (key, value).
    In unambiguous states (no element object attached twice, no name used twice) the map
    must be exactly the facts; in ambiguous states only soundness is required (every
    entry present is true of the graph)."""
    try:
        items = list(got.items())
    except Exception as e:
        return f"not a mapping: {e!r}"
    fset = {(_key(k), _val(v)) for k, v in facts}
    for k, v in items:
        if (_key(k), _val(v)) not in fset:
            return "stale-or-wrong-entry"
    if ambiguous:
        return None
    gk = {_key(k) for k, _ in items}
    fk = {_key(k) for k, _ in facts}
    if gk != fk:
        return "missing-entry" if fk - gk else "extra-key"
    if len(items) != len(facts):
        return "size"
    return None


_REPORTED = set()


def new_history():
    _REPORTED.clear()


def _once(net, what):
    k = (id(net), what)
    if k in _REPORTED:
        return False
    _REPORTED.add(k)
    return True


def _ambiguous_truth(t):
    for m in MEMOS:
        ks = [_key(k) for k, _ in t[m]]
        if len(set(ks)) != len(ks):
            return True
    return False


def _key(k):
    return k if isinstance(k, str) else id(k)


def _val(v):
    if isinstance(v, tuple):
        return tuple(id(t) for t in v)
    return id(v)


def memo_matches_graph(self):
    """icontract invariant condition (records, returns True)."""
    rec = _STATE["rec"]
    if rec is None or not _STATE["enabled"]:
        return True
    try:
        d = self.__dict__
        present = [m for m in MEMOS if m in d]
        if not present:
            rec.count("invariant_evals_no_memo")
            return True
        t = X.lookups_truth(self)
        amb = _ambiguous_truth(t)
        rec.count("invariant_evals")
        if amb:
            rec.count("invariant_evals_ambiguous_state")
        for m in present:
            rec.count("memo_entries_checked")
            why = _cmp_map(m, d[m], t[m], amb)
            if why and _once(self, ("memo", m)):
                rec.violation(
                    f"{_STATE['prop8']}:memo {m} disagrees with the graph ({why}) after {_opkind(_STATE['last_op'])}",
                    {"memo": m, "memo_value": repr(d[m])[:300], "truth": repr(t[m])[:300],
                     "last_op": repr(_STATE["last_op"])[:200]},
                )
    except Exception as e:  # never raise into the code under observation
        rec.count("monitor_internal_errors")
        rec.seen("monitor_internal_errors", repr(e)[:200])
    return True


def _opkind(op):
    if not op:
        return "?"
    return op[0] if isinstance(op, (tuple, list)) else str(op)


def install_invariant(M):
    if _STATE["installed_inv"]:
        return
    import icontract

    class InvariantBroken(Exception):
        pass

    icontract.invariant(memo_matches_graph, error=InvariantBroken)(M.Network)
    _STATE["installed_inv"] = True


# ---------------------------------------------------------------------------
# reading every public lookup


def check_lookups(M, net, rec, prop="C08", subset=None, op=None):
    t = X.lookups_truth(net)
    amb = _ambiguous_truth(t)
    names = list(MEMOS) if subset is None else [m for m in MEMOS if m in subset]
    for m in names:
        rec.count("lookup_reads")
        try:
            got = getattr(net, m)
        except Exception as e:
            rec.violation(f"{prop}:reading {m} raised {type(e).__name__} after {_opkind(op)}",
                          {"lookup": m, "exception": repr(e)[:300], "op": repr(op)[:200]})
            continue
        why = _cmp_map(m, got, t[m], amb)
        if why and _once(net, ("lookup", m)):
            rec.violation(f"{prop}:lookup {m} disagrees with the graph ({why}) after {_opkind(op)}",
                          {"lookup": m, "value": repr(got)[:300], "truth": repr(t[m])[:300], "op": repr(op)[:200]})
    if subset is None or "links" in subset:
        rec.count("lookup_reads")
        try:
            got = [(id(u), id(w), id(l)) for u, w, l in net.links]
            exp = [(id(u), id(w), id(l)) for u, w, l in t["links"]]
            if got != exp:
                rec.violation(f"{prop}:iteration of net.links disagrees with the graph after {_opkind(op)}",
                              {"got": len(got), "expected": len(exp), "op": repr(op)[:200]})
        except Exception as e:
            rec.violation(f"{prop}:iterating net.links raised {type(e).__name__}", {"exception": repr(e)[:300]})
    if hasattr(net, "downstream") and hasattr(net, "ramps"):
        # a user-defined Network subclass with lookups of its own (vf/userkinds.Motorway), kept fresh with the library's decorator
        G_ = X.raw_graph(net)
        rec.count("lookup_reads")
        # (the second memoised method is asked every time, the first one only every other time: at a construction call one
        # of them may well hold nothing while the other does)
        for u_, nb_ in list(G_._succ.items()):
            for w_, d_ in list(nb_.items()):
                try:
                    got_l = net.link_between(u_, w_)
                except Exception as e:
                    rec.violation(f"{prop}:a subclass lookup kept fresh with invalidate_cache raised {type(e).__name__} after {_opkind(op)}", {"exception": repr(e)[:300]})
                    got_l = id(d_.get(X.LINK))
                if got_l != id(d_.get(X.LINK)) and _once(net, ("lookup", "link_between")):
                    rec.violation(f"{prop}:a memoised lookup method of a Network subclass, listed in the library's invalidate_cache decorator, disagrees with the graph after {_opkind(op)}",
                                  {"op": repr(op)[:200], "lookup": "link_between"})
        _STATE["motorway_reads"] = _STATE.get("motorway_reads", 0) + 1
        for n in (list(G_._node) if _STATE["motorway_reads"] % 2 == 0 else []):
            exp_ = frozenset(id(w_) for w_ in G_._succ[n])
            try:
                got_ = net.downstream(n)
            except Exception as e:
                rec.violation(f"{prop}:a subclass lookup kept fresh with invalidate_cache raised {type(e).__name__} after {_opkind(op)}", {"exception": repr(e)[:300]})
                break
            if got_ != exp_ and _once(net, ("lookup", "downstream")):
                rec.violation(f"{prop}:a memoised lookup method of a Network subclass, listed in the library's invalidate_cache decorator, disagrees with the graph after {_opkind(op)}",
                              {"op": repr(op)[:200], "got": len(got_), "expected": len(exp_)})
                break
        if hasattr(net, "ramp_nodes"):
            try:
                got_n = {id(o_): id(n_) for o_, n_ in net.ramp_nodes.items()}
                exp_n = {}
                for n_, d_ in G_._node.items():  # (one object may sit at several nodes: the last one wins, as in `origins`)
                    if X.ORIGIN in d_ and isinstance(d_[X.ORIGIN], M.MeteredOnRamp):
                        exp_n[id(d_[X.ORIGIN])] = id(n_)
                if set(got_n) != set(exp_n) and _once(net, ("lookup", "ramp_nodes")):
                    rec.violation(f"{prop}:a cached lookup of a Network subclass, listed in the library's invalidate_cache decorator, disagrees with the graph after {_opkind(op)}",
                                  {"op": repr(op)[:200], "lookup": "ramp_nodes (cached_property built from a helper function)"})
            except Exception as e:
                rec.violation(f"{prop}:a subclass lookup kept fresh with invalidate_cache raised {type(e).__name__} after {_opkind(op)}", {"exception": repr(e)[:300]})
        exp_r = [id(d_[X.ORIGIN]) for d_ in G_._node.values() if X.ORIGIN in d_ and isinstance(d_[X.ORIGIN], M.MeteredOnRamp)]
        try:
            got_r = [id(o_) for o_ in net.ramps]
            if set(got_r) != set(exp_r) and _once(net, ("lookup", "ramps")):  # (one object may be attached at several nodes)
                rec.violation(f"{prop}:a cached lookup of a Network subclass, listed in the library's invalidate_cache decorator, disagrees with the graph after {_opkind(op)}",
                              {"op": repr(op)[:200]})
        except Exception as e:
            rec.violation(f"{prop}:a subclass lookup kept fresh with invalidate_cache raised {type(e).__name__} after {_opkind(op)}", {"exception": repr(e)[:300]})
    if subset is None or "per_node" in subset:
        for n in list(X.raw_graph(net).nodes):
            for which, attr in (("in", "in_links"), ("out", "out_links")):
                rec.count("lookup_reads")
                try:
                    got = sorted((id(a), id(b), id(l)) for a, b, l in getattr(net, attr)(n))
                except Exception as e:
                    rec.violation(f"{prop}:{attr}(node) raised {type(e).__name__} after {_opkind(op)}",
                                  {"exception": repr(e)[:300], "op": repr(op)[:200]})
                    continue
                exp = sorted((id(a), id(b), id(l)) for a, b, l in t[which][id(n)])
                if got != exp:
                    rec.violation(f"{prop}:{attr}(node) disagrees with the graph after {_opkind(op)}",
                                  {"got": got, "expected": exp, "op": repr(op)[:200]})


def twin_compare(M, net, rec, prop="C08", op=None):
    """Generic: every public non-callable attribute of Network equals that of a brand-new
    Network into which the same graph is replayed (catches memoisation added to any lookup,
    present or future)."""
    G = X.raw_graph(net)
    twin = M.Network(name=net.name)
    for n in G.nodes:
        twin._graph.add_node(n, **G.nodes[n])
    for u in G.nodes:
        for w, data in G.succ[u].items():
            twin._graph.add_edge(u, w, **data)
    for a in dir(type(net)):
        if a.startswith("_") or a in ("G", "graph", "asgraph", "name"):
            continue
        try:
            va = getattr(net, a)
        except Exception:
            continue
        if callable(va) and not hasattr(va, "items") and not hasattr(va, "_nodes_nbrs"):
            continue
        try:
            vb = getattr(twin, a)
        except Exception:
            continue
        rec.count("twin_attribute_comparisons")
        na, nb = _norm(va), _norm(vb)
        if na is None or nb is None:
            continue
        # shared objects / clashing names make dict content order-dependent: compare key sets
        if isinstance(na, dict):
            if set(na) != set(nb) and not _ambiguous(net):
                if _once(net, ("twin", a)):
                    rec.violation(f"{prop}:attribute {a} differs from a fresh network with the same graph after {_opkind(op)}",
                                  {"attribute": a, "live": repr(va)[:300], "fresh": repr(vb)[:300]})
            elif na != nb and not _ambiguous(net) and _once(net, ("twin", a)):
                rec.violation(f"{prop}:attribute {a} differs from a fresh network with the same graph after {_opkind(op)}",
                              {"attribute": a, "live": repr(va)[:300], "fresh": repr(vb)[:300]})
        elif na != nb and _once(net, ("twin", a)):
            rec.violation(f"{prop}:attribute {a} differs from a fresh network with the same graph after {_opkind(op)}",
                          {"attribute": a, "live": repr(va)[:300], "fresh": repr(vb)[:300]})


def _ambiguous(net):
    return _ambiguous_truth(X.lookups_truth(net))


def _norm(v):
    try:
        if hasattr(v, "items") and not hasattr(v, "_nodes_nbrs"):
            return {_key(k): (_val(x) if not isinstance(x, dict) else tuple(sorted(x))) for k, x in v.items()}
        if hasattr(v, "_nodes_nbrs") or hasattr(v, "__iter__"):
            out = []
            for it in v:
                out.append(tuple(id(t) for t in it) if isinstance(it, tuple) else (id(it),))
            # the replayed twin may order predecessor dicts differently: compare as multisets
            return sorted(out)
    except Exception:
        return None
    return None


# ---------------------------------------------------------------------------
# construction model (C09)


def graph_state(net):
    """(nodes in order, {(up,down): link}, {node: origin}, {node: destination}) by id."""
    G = X.raw_graph(net)
    # the raw dictionaries are walked as (key, value) pairs - never looked up by key: if element hashing or
    # equality went wrong, a lookup would fail or hit another entry, which is exactly what is to be seen
    node_items = list(G._node.items())
    succ_items = [(u, list(nb.items())) for u, nb in G._succ.items()]
    nodes = [id(n) for n, _d in node_items]
    objs = {id(n): n for n, _d in node_items}
    edges = {(id(u), id(w)): id(d.get(X.LINK)) for u, nb in succ_items for w, d in nb}
    org = {id(n): id(d[X.ORIGIN]) for n, d in node_items if X.ORIGIN in d}
    dst = {id(n): id(d[X.DEST]) for n, d in node_items if X.DEST in d}
    extra = {id(n): sorted(k for k in d if k not in (X.ORIGIN, X.DEST)) for n, d in node_items}
    eextra = {(id(u), id(w)): sorted(k for k in d if k != X.LINK) for u, nb in succ_items for w, d in nb}
    return {"nodes": nodes, "edges": edges, "org": org, "dst": dst, "objs": objs,
            "extra": {k: v for k, v in extra.items() if v}, "eextra": {k: v for k, v in eextra.items() if v}}


def model_apply(st, op):
    """The specification of each construction call applied to a graph state."""
    nodes = list(st["nodes"])
    edges = dict(st["edges"])
    org = dict(st["org"])
    dst = dict(st["dst"])

    def addn(n):
        if id(n) not in nodes:
            nodes.append(id(n))

    k = op[0]
    if k == "add_node":
        addn(op[1])
    elif k == "add_nodes":
        for n in op[1]:
            addn(n)
    elif k == "add_link":
        _, u, l, w = op
        addn(u)
        addn(w)
        edges[(id(u), id(w))] = id(l)
    elif k == "add_links":
        for (u, l, w) in op[1]:
            addn(u)
            addn(w)
            edges[(id(u), id(w))] = id(l)
    elif k == "add_origin":
        _, o, n = op
        addn(n)
        org[id(n)] = id(o)
    elif k == "add_destination":
        _, d, n = op
        addn(n)
        dst[id(n)] = id(d)
    elif k == "add_path":
        _, path, o, d = op
        addn(path[0])
        if o is not None:
            org[id(path[0])] = id(o)
        for i in range(0, len(path) - 2, 2):
            u, l, w = path[i], path[i + 1], path[i + 2]
            addn(w)
            edges[(id(u), id(w))] = id(l)
        if d is not None:
            dst[id(path[-1])] = id(d)
    elif k == "remove_node":  # a junction removed through the networkx graph (with everything attached to it)
        _, n = op
        if id(n) in nodes:
            nodes.remove(id(n))
        for key in [e_ for e_ in edges if id(n) in e_]:
            edges.pop(key)
        org.pop(id(n), None)
        dst.pop(id(n), None)
    elif k == "detach":  # `del net.G.nodes[n]["origin" | "destination"]`
        _, n, what = op
        (org if what == "origin" else dst).pop(id(n), None)
    elif k == "remove_edge":  # a road closed through the networkx graph the network hands out
        _, u, w = op
        edges.pop((id(u), id(w)), None)
    else:
        raise ValueError(k)
    return {"nodes": nodes, "edges": edges, "org": org, "dst": dst}


def compare_state(rec, prop, got, exp, op):
    kind = _opkind(op)
    ok = True
    if set(got["nodes"]) != set(exp["nodes"]) or len(got["nodes"]) != len(exp["nodes"]):
        rec.violation(f"{prop}:{kind}: node set differs from the specification", _w(got, exp, op))
        ok = False
    elif got["nodes"] != exp["nodes"]:
        rec.count("node_order_differs_from_insertion_order")  # not required by the statement
    if got["edges"] != exp["edges"]:
        if set(got["edges"]) != set(exp["edges"]):
            rec.violation(f"{prop}:{kind}: edge set differs from the specification (wrong end points?)", _w(got, exp, op))
        else:
            rec.violation(f"{prop}:{kind}: an edge carries another link object than the one given", _w(got, exp, op))
        ok = False
    if got["org"] != exp["org"]:
        rec.violation(f"{prop}:{kind}: origin attachments differ from the specification", _w(got, exp, op))
        ok = False
    if got["dst"] != exp["dst"]:
        rec.violation(f"{prop}:{kind}: destination attachments differ from the specification", _w(got, exp, op))
        ok = False
    if got.get("extra") or got.get("eextra"):
        rec.count("extra_attributes_on_nodes_or_edges")  # not forbidden by the statement
    return ok


def _w(got, exp, op):
    return {"op": repr(op)[:300], "got": {k: repr(v)[:300] for k, v in got.items() if k != "objs"},
            "expected": {k: repr(v)[:300] for k, v in exp.items()}}


def install_transitions(M):
    """icontract postconditions with OLD snapshots on the six simple construction calls."""
    if _STATE["installed_tr"]:
        return
    import icontract

    class PostBroken(Exception):
        pass

    def snap(self):
        return graph_state(self)

    def mk(opbuilder):
        def post(self, OLD, result, **kw):
            rec = _STATE["rec"]
            if rec is None or not _STATE["enabled"]:
                return True
            try:
                op = opbuilder(**kw)
                exp = model_apply(OLD.g, op)
                rec.count("transition_postconditions")
                rec.seen("transition_kinds", op[0])
                compare_state(rec, _STATE["prop9"], graph_state(self), exp, op)
                if result is not self:
                    rec.count("call_does_not_return_the_network")  # documented, but not part of the statement
            except Exception as e:
                rec.count("monitor_internal_errors")
                rec.seen("monitor_internal_errors", repr(e)[:200])
            return True

        return post

    def deco(name, postfn):
        orig = getattr(M.Network, name)
        wrapped = icontract.snapshot(snap, name="g")(icontract.ensure(postfn, error=PostBroken)(orig))
        setattr(M.Network, name, wrapped)

    def p_add_node(self, node, result, OLD):
        return mk(lambda node: ("add_node", node))(self, OLD, result, node=node)

    def _reiterable(x):
        return isinstance(x, (list, tuple, set, frozenset, dict))

    def p_add_nodes(self, nodes, result, OLD):
        if not _reiterable(nodes):  # a one-shot iterable cannot be read again here: driver-level check
            return True
        return mk(lambda nodes: ("add_nodes", list(nodes)))(self, OLD, result, nodes=nodes)

    def p_add_link(self, node_up, link, node_down, result, OLD):
        return mk(lambda node_up, link, node_down: ("add_link", node_up, link, node_down))(
            self, OLD, result, node_up=node_up, link=link, node_down=node_down)

    def p_add_links(self, links, result, OLD):
        if not _reiterable(links):
            return True
        return mk(lambda links: ("add_links", list(links)))(self, OLD, result, links=links)

    def p_add_origin(self, origin, node, result, OLD):
        return mk(lambda origin, node: ("add_origin", origin, node))(self, OLD, result, origin=origin, node=node)

    def p_add_destination(self, destination, node, result, OLD):
        return mk(lambda destination, node: ("add_destination", destination, node))(
            self, OLD, result, destination=destination, node=node)

    deco("add_node", p_add_node)
    deco("add_nodes", p_add_nodes)
    deco("add_link", p_add_link)
    deco("add_links", p_add_links)
    deco("add_origin", p_add_origin)
    deco("add_destination", p_add_destination)
    _STATE["installed_tr"] = True
