#!/venv/bin/python
"""Seeded property-breaking changes written by independent sub-agents.

seeded.py ingest <name> <worktree> <property> : verifies the change in a scratch copy
     (tests still pass with the patch; demo exits 0 without and non-zero with it) and, if so,
     stores it as /verif/seeded/<name>/{patch.diff, demo.py, meta.json}
seeded.py run [name ...] [--props C01,C02 | --all-props] [--jobs N]: applies each stored patch
     to a scratch copy of /repo (outside /repo and /verif), runs the quick checks with SMN_SRC
     pointing at it and reports which checks raise a VIOLATION.
"""
import argparse
import json
import os
import shutil
import subprocess
import sys
import tempfile
from concurrent.futures import ThreadPoolExecutor

HERE = os.path.dirname(os.path.abspath(__file__))
VERIF = os.path.dirname(os.path.dirname(HERE))
SEEDED = os.path.join(VERIF, "seeded")
BASELINE = json.load(open("/root/.vp/BASELINE.json"))["stable_pass"]


def scratch_copy():
    tmp = tempfile.mkdtemp(prefix="smn_seed_")
    shutil.copytree("/repo/src", os.path.join(tmp, "src"), ignore=shutil.ignore_patterns("__pycache__", "*.egg-info"))
    shutil.copytree("/repo/tests", os.path.join(tmp, "tests"), ignore=shutil.ignore_patterns("__pycache__"))
    for f in ("README.md",):
        if os.path.exists(os.path.join("/repo", f)):
            shutil.copy(os.path.join("/repo", f), tmp)
    return tmp


def apply_patch(tmp, patch):
    cp = subprocess.run(["patch", "-p1", "-s", "-d", tmp, "-i", patch], capture_output=True, text=True)
    return cp.returncode == 0, cp.stdout + cp.stderr


def run_tests(tmp):
    env = dict(os.environ, PYTHONPATH=os.path.join(tmp, "src"), PYTHONDONTWRITEBYTECODE="1")
    junit = os.path.join(tmp, "junit.xml")
    subprocess.run(["/venv/bin/python", "-m", "pytest", "-q", "-p", "no:cacheprovider", "--timeout=900",
                    "--continue-on-collection-errors", f"--junitxml={junit}", "tests"],
                   cwd=tmp, env=env, stdout=subprocess.DEVNULL, stderr=subprocess.DEVNULL, timeout=900)
    import xml.etree.ElementTree as ET

    passed = set()
    for tc in ET.parse(junit).getroot().iter("testcase"):
        if not any(ch.tag in ("failure", "error", "skipped") for ch in tc):
            passed.add(f"{tc.get('classname')}::{tc.get('name')}")
    return passed


def run_demo(tmp, demo):
    env = dict(os.environ, PYTHONPATH=os.path.join(tmp, "src"), PYTHONDONTWRITEBYTECODE="1")
    cp = subprocess.run(["/venv/bin/python", demo], cwd=tmp, env=env, capture_output=True, text=True, timeout=600)
    return cp.returncode, (cp.stdout + cp.stderr)[-600:]


def ingest(name, wt, prop, needs=""):
    patch = os.path.join(wt, "SEED", "patch.diff")
    demo = os.path.join(wt, "SEED", "demo.py")
    # regenerate the patch from the worktree itself (authoritative)
    cp = subprocess.run(["git", "-C", wt, "diff", "--", "src"], capture_output=True, text=True)
    # the agent's declared patch is authoritative (worktrees share one git stash, so a worktree
    # may have been contaminated); warn when the worktree differs from it
    patch_text = open(patch).read()
    if cp.stdout.strip() and cp.stdout.strip() != patch_text.strip():
        print("WARNING: worktree diff differs from SEED/patch.diff; using SEED/patch.diff")
    a = scratch_copy()
    b = scratch_copy()
    try:
        pfile = os.path.join(b, "seed.patch")
        open(pfile, "w").write(patch_text)
        ok, msg = apply_patch(b, pfile)
        if not ok:
            print("patch does not apply:", msg)
            return False
        base = run_tests(a)
        with_patch = run_tests(b)
        demo_a = os.path.join(a, "demo.py")
        demo_b = os.path.join(b, "demo.py")
        shutil.copy(demo, demo_a)
        shutil.copy(demo, demo_b)
        rc0, out0 = run_demo(a, demo_a)
        rc1, out1 = run_demo(b, demo_b)
        res = {
            "tests_unchanged": len(base), "tests_with_change": len(with_patch),
            "baseline32_ok": all(t in with_patch for t in BASELINE),
            "all_previously_passing_ok": base <= with_patch,
            "demo_rc_unchanged": rc0, "demo_rc_with_change": rc1,
            "demo_output_with_change": out1,
        }
        print(json.dumps(res, indent=1))
        good = res["baseline32_ok"] and rc0 == 0 and rc1 != 0
        if not good:
            print("NOT confirmed")
            return False
        d = os.path.join(SEEDED, name)
        os.makedirs(d, exist_ok=True)
        open(os.path.join(d, "patch.diff"), "w").write(patch_text)
        shutil.copy(demo, os.path.join(d, "demo.py"))
        notes = os.path.join(wt, "SEED", "notes.md")
        if os.path.exists(notes):
            shutil.copy(notes, os.path.join(d, "notes.md"))
        meta = {"breaks": prop, "needs_to_manifest": needs, "confirmed": res,
                "what_was_run": "scratch copies of /repo src+tests under a mktemp dir: repository tests (pytest) without and with the "
                                "patch; demo.py without (exit 0) and with the patch (exit != 0)"}
        json.dump(meta, open(os.path.join(d, "meta.json"), "w"), indent=1)
        print("stored", d)
        return True
    finally:
        shutil.rmtree(a, ignore_errors=True)
        shutil.rmtree(b, ignore_errors=True)


def run_one(name, props, seeds=(0,)):
    d = os.path.join(SEEDED, name)
    tmp = scratch_copy()
    try:
        ok, msg = apply_patch(tmp, os.path.join(d, "patch.diff"))
        if not ok:
            return name, {"error": "patch does not apply: " + msg[:200]}
        out = {}
        for p in props:
            rcs = []
            mech = []
            for sd in seeds:
                env = dict(os.environ, SMN_SRC=os.path.join(tmp, "src"), VERIF_SEED=str(sd))
                cp = subprocess.run([os.path.join(VERIF, "check"), p, "--no-evidence"], cwd=VERIF, env=env,
                                    capture_output=True, text=True, timeout=3000)
                rcs.append(cp.returncode)
                mech = mech or [l.strip() for l in cp.stdout.splitlines() if l.strip().startswith("mechanism:")]
            out[p] = {"rc": 1 if all(r == 1 for r in rcs) else (0 if all(r == 0 for r in rcs) else max(set(rcs) - {1}, default=0)),
                      "rcs": rcs, "mechanisms": mech[:2]}
        return name, out
    finally:
        shutil.rmtree(tmp, ignore_errors=True)


def main():
    ap = argparse.ArgumentParser()
    sub = ap.add_subparsers(dest="cmd")
    i = sub.add_parser("ingest")
    i.add_argument("name")
    i.add_argument("worktree")
    i.add_argument("prop")
    i.add_argument("--needs", default="")
    b = sub.add_parser("ingest-batch", help="ingest every <prefix>Cxx worktree that has SEED/patch.diff and SEED/demo.py")
    b.add_argument("prefix")
    b.add_argument("suffix")
    r = sub.add_parser("run")
    r.add_argument("names", nargs="*")
    r.add_argument("--props", default="")
    r.add_argument("--all-props", action="store_true")
    r.add_argument("--jobs", type=int, default=8)
    r.add_argument("--seeds", default="0")
    a = ap.parse_args()
    if a.cmd == "ingest":
        sys.exit(0 if ingest(a.name, a.worktree, a.prop, a.needs) else 1)
    if a.cmd == "ingest-batch":
        import re

        for i in range(1, 20):
            prop = f"C{i:02d}"
            wt = f"{a.prefix}{prop}"
            if not (os.path.exists(os.path.join(wt, "SEED", "patch.diff")) and os.path.exists(os.path.join(wt, "SEED", "demo.py"))):
                continue
            if any(n.startswith(prop + a.suffix + "_") for n in os.listdir(SEEDED)):
                continue
            files = re.findall(r"^\+\+\+ b/src/sym_metanet/(\S+)", open(os.path.join(wt, "SEED", "patch.diff")).read(), re.M)
            slug = "_".join(sorted({os.path.splitext(os.path.basename(f))[0] for f in files})) or "change"
            name = f"{prop}{a.suffix}_{slug}"
            print("==", name)
            ok = ingest(name, wt, prop, "see notes.md")
            print("   ->", "stored" if ok else "NOT confirmed")
        return
    names = a.names or sorted(n_ for n_ in os.listdir(SEEDED) if os.path.isdir(os.path.join(SEEDED, n_)))
    ALL = [f"C{i:02d}" for i in range(1, 20)]

    def job(n):
        meta = json.load(open(os.path.join(SEEDED, n, "meta.json")))
        props = ALL if a.all_props else (a.props.split(",") if a.props else [meta["breaks"]])
        return run_one(n, props, tuple(int(x) for x in a.seeds.split(","))), meta

    with ThreadPoolExecutor(max_workers=a.jobs) as ex:
        for (n, out), meta in ex.map(job, names):
            if "error" in out:
                print(f"{n:40s} ERROR {out['error']}")
                continue
            caught = [p for p, v in out.items() if v["rc"] == 1]
            target = meta["breaks"]
            status = "CAUGHT" if target in caught else ("caught-by-other" if caught else "MISSED")
            print(f"{n:40s} breaks={target} {status} by={caught} rcs={out.get(target, {}).get('rcs')}")
            for p in caught[:3]:
                for m in out[p]["mechanisms"][:1]:
                    print(f"        {p}: {m[:200]}")
            for p, v in out.items():
                if v["rc"] not in (0, 1):
                    print(f"        {p}: rc={v['rc']} (inconclusive)")


if __name__ == "__main__":
    main()
