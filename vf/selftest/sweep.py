#!/venv/bin/python
"""sweep.py <tier> <seed>... [--props C01,C02] [--jobs N]: every check at every seed from
fresh processes (evidence not written); prints every non-zero exit with its verdict lines."""
import argparse
import os
import subprocess
import sys
from concurrent.futures import ThreadPoolExecutor

VERIF = os.path.dirname(os.path.dirname(os.path.dirname(os.path.abspath(__file__))))
ALL = [f"C{i:02d}" for i in range(1, 20)]
ap = argparse.ArgumentParser()
ap.add_argument("tier")
ap.add_argument("seeds", nargs="+", type=int)
ap.add_argument("--props", default=",".join(ALL))
ap.add_argument("--jobs", type=int, default=8)
a = ap.parse_args()


def one(job):
    p, seed = job
    env = dict(os.environ, VERIF_SEED=str(seed))
    cp = subprocess.run([os.path.join(VERIF, "check"), p, "--tier", a.tier, "--no-evidence"], cwd=VERIF, env=env,
                        capture_output=True, text=True)
    return p, seed, cp.returncode, cp.stdout


jobs = [(p, s) for s in a.seeds for p in a.props.split(",")]
bad = 0
with ThreadPoolExecutor(max_workers=(1 if a.tier == "thorough" else a.jobs)) as ex:
    for p, seed, rc, out in ex.map(one, jobs):
        wall = [l for l in out.splitlines() if l.startswith(f"[{p}]")]
        if rc != 0:
            bad += 1
            print(f"{p} seed={seed} rc={rc}")
            for l in out.splitlines():
                if l.startswith(("VIOLATION", "INCONCLUSIVE", "  mechanism", "--- shard")):
                    print("    " + l[:300])
        else:
            print(f"{p} seed={seed} ok {wall[0].split('wall=')[-1] if wall else ''}")
print("non-zero exits:", bad)
sys.exit(1 if bad else 0)
