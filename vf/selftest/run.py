#!/venv/bin/python
"""Mutation self-test: apply each mutant to a scratch copy of /repo (outside /repo and
/verif), make sure the repository's own passing tests still pass there, then run the
relevant quick checks with SMN_SRC pointing at the copy; every listed check must exit 1.

usage: run.py [--only id,id] [--props C01,C02] [--all-props] [--jobs N] [--skip-tests]
"""
import argparse
import json
import os
import shutil
import subprocess
import sys
import tempfile
from concurrent.futures import ThreadPoolExecutor

HERE = os.path.dirname(os.path.abspath(__file__))
VERIF = os.path.dirname(os.path.dirname(HERE))
sys.path.insert(0, VERIF)
from vf.selftest.mutants import MUTANTS  # noqa: E402

BASELINE = json.load(open("/root/.vp/BASELINE.json"))["stable_pass"]


def run_tests(tmp):
    env = dict(os.environ, PYTHONPATH=os.path.join(tmp, "src"), PYTHONDONTWRITEBYTECODE="1")
    junit = os.path.join(tmp, "junit.xml")
    subprocess.run(
        ["/venv/bin/python", "-m", "pytest", "-q", "-p", "no:cacheprovider", "--timeout=900",
         "--continue-on-collection-errors", f"--junitxml={junit}", "tests"],
        cwd=tmp, env=env, stdout=subprocess.DEVNULL, stderr=subprocess.DEVNULL, timeout=900)
    import xml.etree.ElementTree as ET

    passed = set()
    try:
        for tc in ET.parse(junit).getroot().iter("testcase"):
            if not any(ch.tag in ("failure", "error", "skipped") for ch in tc):
                passed.add(f"{tc.get('classname')}::{tc.get('name')}")
    except Exception:
        pass
    return passed


def one(m, props, skip_tests, base_pass):
    tmp = tempfile.mkdtemp(prefix="smn_mut_")
    try:
        shutil.copytree("/repo/src", os.path.join(tmp, "src"), ignore=shutil.ignore_patterns("__pycache__", "*.egg-info"))
        shutil.copytree("/repo/tests", os.path.join(tmp, "tests"), ignore=shutil.ignore_patterns("__pycache__"))
        p = os.path.join(tmp, "src", "sym_metanet", m["file"])
        s = open(p).read()
        if s.count(m["old"]) < 1:
            return {"id": m["id"], "error": "pattern not found"}
        s = s.replace(m["old"], m["new"], 1)
        open(p, "w").write(s)
        r = {"id": m["id"], "props": {}}
        if not skip_tests:
            passed = run_tests(tmp)
            r["baseline32_ok"] = all(t in passed for t in BASELINE)
            r["all_current_ok"] = base_pass <= passed
            r["broken_tests"] = sorted(base_pass - passed)[:5]
        for pr in props:
            env = dict(os.environ, SMN_SRC=os.path.join(tmp, "src"))
            cp = subprocess.run([os.path.join(VERIF, "check"), pr, "--no-evidence"], cwd=VERIF, env=env,
                                capture_output=True, text=True, timeout=1800)
            mech = [l.strip() for l in cp.stdout.splitlines() if l.strip().startswith("mechanism:")]
            r["props"][pr] = {"rc": cp.returncode, "mechanisms": mech[:3], "n_mech": len(mech)}
        return r
    finally:
        shutil.rmtree(tmp, ignore_errors=True)


def main():
    ap = argparse.ArgumentParser()
    ap.add_argument("--only", default="")
    ap.add_argument("--props", default="")
    ap.add_argument("--all-props", action="store_true")
    ap.add_argument("--jobs", type=int, default=8)
    ap.add_argument("--skip-tests", action="store_true")
    ap.add_argument("--out", default="")
    a = ap.parse_args()
    only = set(filter(None, a.only.split(",")))
    available = sorted(f[:-3].upper() for f in os.listdir(os.path.join(VERIF, "vf", "checks")) if f.startswith("c") and f.endswith(".py"))
    muts = [m for m in MUTANTS if not only or m["id"] in only]
    base_pass = set()
    if not a.skip_tests:
        tmp = tempfile.mkdtemp(prefix="smn_mut_base_")
        try:
            shutil.copytree("/repo/src", os.path.join(tmp, "src"), ignore=shutil.ignore_patterns("__pycache__", "*.egg-info"))
            shutil.copytree("/repo/tests", os.path.join(tmp, "tests"), ignore=shutil.ignore_patterns("__pycache__"))
            base_pass = run_tests(tmp)
        finally:
            shutil.rmtree(tmp, ignore_errors=True)
        print(f"unmutated copy: {len(base_pass)} tests pass")

    def job(m):
        if a.all_props:
            props = available
        elif a.props:
            props = [p for p in a.props.split(",") if p in available]
        else:
            props = [p for p in m["props"] if p in available]
        return one(m, props, a.skip_tests, base_pass), m

    results = []
    with ThreadPoolExecutor(max_workers=a.jobs) as ex:
        for r, m in ex.map(job, muts):
            results.append(r)
            if "error" in r:
                print(f"{r['id']:34s} ERROR {r['error']}")
                continue
            caught = [p for p, v in r["props"].items() if v["rc"] == 1]
            missed = [p for p in m["props"] if p in r["props"] and r["props"][p]["rc"] != 1]
            unexpected = [p for p in caught if p not in m["props"]]
            t = "" if a.skip_tests else (" tests32=%s all=%s" % ("ok" if r["baseline32_ok"] else "FAIL", "ok" if r["all_current_ok"] else "fail"))
            print(f"{r['id']:34s}{t} caught={caught} MISSED={missed} extra={unexpected}")
            for p in missed:
                print(f"      {p}: rc={r['props'][p]['rc']}")
    if a.out:
        json.dump(results, open(a.out, "w"), indent=1)


if __name__ == "__main__":
    main()
