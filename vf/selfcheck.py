"""Oracle self-check: the scalar reference, iterated in closed loop without calling
``sym_metanet``, must reproduce upstream's recorded 900-step trajectory of the
example freeway (tests/data_test_examples.pkl)."""
import os
import pickle

import numpy as np

from vf import refmodel as R
from vf.env import REPO_DIR, Inconclusive

_cache = {}


def example_desc():
    base = dict(lam=2, L=1.0, rho_max=180.0, rho_crit=33.5, v_free=102.0, a=1.867,
                vsl=None, alpha=None)
    return {
        "nodes": ["N1", "N2", "N3"],
        "links": [
            dict(base, id="L1", name="L1", up="N1", down="N2", N=4, beta=1.867),
            dict(base, id="L2", name="L2", up="N2", down="N3", N=2, beta=1.0),
        ],
        "origins": [
            {"id": "O1", "name": "O1", "node": "N1", "kind": "ramp", "C": 4000.0, "eq": "out"},
            {"id": "O2", "name": "O2", "node": "N2", "kind": "ramp", "C": 2000.0, "eq": "out"},
        ],
        "dests": [{"id": "D1", "name": "D1", "node": "N3", "kind": "free"}],
    }


def example_pars():
    return {"T": 10 / 3600, "tau": 18 / 3600, "eta": 60.0, "kappa": 40.0, "delta": 0.0122,
            "phi": None}


def example_demands():
    T = 10 / 3600
    time = np.arange(0, 2.5, T)
    return np.stack(
        (
            np.interp(time, (2.0, 2.25), (3500, 1000)),
            np.interp(time, (0.0, 0.15, 0.35, 0.5), (500, 1500, 1500, 500)),
        )
    ).T


def run_selfcheck(steps=None):
    """Returns max relative deviation; raises Inconclusive if the oracle is broken or
    the data cannot be read."""
    if "dev" in _cache and steps is None:
        return _cache["dev"]
    path = os.path.join(REPO_DIR, "tests", "data_test_examples.pkl")
    if not os.path.exists(path):
        path = "/repo/tests/data_test_examples.pkl"
    try:
        with open(path, "rb") as f:
            RES = pickle.load(f)
        RHO_, V_, W_, Q_, Qo_, _ = RES["test_dyn"]
    except Exception as e:  # data absent: self-check impossible
        raise Inconclusive(f"oracle self-check data unreadable: {e!r}")
    desc, pars = example_desc(), example_pars()
    dem = example_demands()
    rho = [22, 22, 22.5, 24, 30, 32]
    v = [80, 80, 78, 72.5, 66, 62]
    w = [0.0, 0.0]
    dev = 0.0
    n = len(dem) if steps is None else steps
    for k in range(n):
        vals = {
            "L1": {"rho": [float(x) for x in rho[:4]], "v": [float(x) for x in v[:4]]},
            "L2": {"rho": [float(x) for x in rho[4:]], "v": [float(x) for x in v[4:]]},
            "O1": {"w": w[0], "d": float(dem[k][0]), "r": 1.0},
            "O2": {"w": w[1], "d": float(dem[k][1]), "r": 1.0},
        }
        res = R.ref_step(desc, vals, pars)
        q = res.q["L1"] + res.q["L2"]
        qo = [res.qo["O1"], res.qo["O2"]]
        rho = res.next["L1"]["rho"] + res.next["L2"]["rho"]
        v = res.next["L1"]["v"] + res.next["L2"]["v"]
        w = [res.next["O1"]["w"], res.next["O2"]["w"]]
        for got, exp in ((rho, RHO_[k]), (v, V_[k]), (w, W_[k]), (q, Q_[k]), (qo, Qo_[k])):
            for x, y in zip(got, np.asarray(exp).ravel()):
                dev = max(dev, abs(x - float(y)) / (1.0 + abs(float(y))))
    if dev > 1e-9:
        raise Inconclusive(f"oracle broken: reference deviates from recorded trajectory by {dev:.3e}")
    if steps is None:
        _cache["dev"] = dev
    return dev
