"""Reach gate: which functions (and lines) of sym_metanet did the workload execute?

Uses ``sys.monitoring`` (PY_START, and LINE on request); every location is disabled after
its first hit, so the cost is negligible.  A check whose anchor functions were never
entered must not say "held".
"""
import os
import sys

from vf.env import SMN_SRC

_TOOL = 4  # a free tool id (0..5)


class ReachGate:
    def __init__(self, M, anchors, lines=False):
        self.anchors = list(anchors)
        self.functions = set()
        self.lines = set() if lines else None
        self.root = os.path.join(SMN_SRC, "sym_metanet") + os.sep
        self.active = False

    def start(self):
        mon = sys.monitoring
        try:
            mon.use_tool_id(_TOOL, "vf-reach")
        except ValueError:
            # already in use (nested gate): share
            pass
        ev = mon.events.PY_START | (mon.events.LINE if self.lines is not None else 0)
        mon.register_callback(_TOOL, mon.events.PY_START, self._start)
        if self.lines is not None:
            mon.register_callback(_TOOL, mon.events.LINE, self._line)
        mon.set_events(_TOOL, ev)
        mon.restart_events()
        self.active = True
        return self

    def _start(self, code, offset):
        fn = code.co_filename
        if fn.startswith(self.root):
            self.functions.add(fn[len(self.root):] + ":" + code.co_name)
        return sys.monitoring.DISABLE

    def _line(self, code, line):
        fn = code.co_filename
        if fn.startswith(self.root):
            self.lines.add((fn[len(self.root):], line))
        return sys.monitoring.DISABLE

    def stop(self):
        if self.active:
            mon = sys.monitoring
            mon.set_events(_TOOL, 0)
            mon.register_callback(_TOOL, mon.events.PY_START, None)
            if self.lines is not None:
                mon.register_callback(_TOOL, mon.events.LINE, None)
            try:
                mon.free_tool_id(_TOOL)
            except Exception:
                pass
            self.active = False
        return {a: (a in self.functions) for a in self.anchors}


def property_anchor_ranges(prop):
    """[(label, relpath under sym_metanet/, lo, hi)] parsed from the anchors of a property record."""
    import json
    import re

    from vf.env import VERIF_DIR

    out = []
    with open(os.path.join(VERIF_DIR, "properties.jsonl")) as f:
        for line in f:
            d = json.loads(line)
            if d["id"] != prop:
                continue
            for grp in ("state", "mechanism"):
                for m in d["anchors"].get(grp, []):
                    for part in m.get("where", "").split(";"):
                        mm = re.search(r"src/sym_metanet/([\w/]+\.py):([\d,\-]+)", part)
                        if not mm:
                            continue
                        for rng in mm.group(2).split(","):
                            lo, _, hi = rng.partition("-")
                            out.append((m.get("name", "")[:60], mm.group(1), int(lo), int(hi or lo)))
    return out


def anchor_report(prop, lines):
    """Per anchor range: how many source lines of the range were executed by the workload."""
    rep = []
    for label, rel, lo, hi in property_anchor_ranges(prop):
        n = sum(1 for (f, ln) in lines if f == rel and lo <= ln <= hi)
        rep.append({"anchor": label, "file": rel, "lines": f"{lo}-{hi}", "executed_lines": n})
    return rep
