"""Client-boundary helpers: turn plain values into what ``Network.step`` accepts,
step, read results back as plain numbers."""
import math

import numpy as np

from vf.desc import var_layout


def engines(M):
    from sym_metanet.engines.casadi import Engine as CE
    from sym_metanet.engines.numpy import Engine as NE

    return NE, CE


OPT_INIT = ("positive_init_speed", "positive_init_density", "positive_init_queue")
VIAS = ("net", "elements", "elements_links_first", "elements_shuffled")


def step_elements(net, via="elements", init_conditions=None, engine=None, rng=None, only_init=None, **kw):
    """What ``Network.step`` documents, written with the element-level public calls
    (`el.init_vars`, `origin.step`, `link.step`) - the per-element simulation loop of a user who
    does not go through ``Network.step``.  via: 'elements' (same order as Network.step),
    'elements_links_first', 'elements_shuffled' (needs rng).  only_init: element objects to be
    (re-)initialised - the others keep the variables they already hold."""
    ic = init_conditions or {}
    init = {o: kw.pop(o, False) for o in OPT_INIT}
    pn_speed = kw.pop("positive_next_speed", False)
    pn_density = kw.pop("positive_next_density", False)
    pn_queue = kw.pop("positive_next_queue", False)
    els = list(net.elements)
    if via == "elements_shuffled" and rng is not None:
        rng.shuffle(els)
    from vf.desc import ORDER, callform

    def kind_of(el):
        n = type(el).__mro__
        names = [c.__name__ for c in n]
        if "LinkWithVsl" in names:
            return "LinkWithVsl"
        if "Link" in names:
            return "Link"
        if "Origin" in names:
            return "Origin"
        return "Destination"

    for el in els:
        if only_init is not None and not any(el is x for x in only_init):
            continue
        k_ = kind_of(el)
        vals = {"init_conditions": ic.get(el), "engine": engine}
        rest = dict(init)
        for n_ in ORDER[k_ + ".init_vars"][2:]:
            vals[n_] = rest.pop(n_)
        callform(el.init_vars, ORDER[k_ + ".init_vars"], vals, 0, extra=rest)
    todo = [("o", o) for o in net.origins] + [("l", l) for _, _, l in net.links]
    if via == "elements_links_first":
        todo = [t for t in todo if t[0] == "l"] + [t for t in todo if t[0] == "o"]
    elif via == "elements_shuffled" and rng is not None:
        rng.shuffle(todo)
    for k, el in todo:
        if k == "o":
            order = ORDER["Origin.step"]
            vals = {"net": net}
            if "T" in kw:
                vals["T"] = kw["T"]
                vals["engine"] = engine
                vals["positive_next_queue"] = pn_queue
                extra = {a: b for a, b in kw.items() if a != "T"}
            else:
                extra = dict(kw, engine=engine, positive_next_queue=pn_queue)
            callform(el.step, order, vals, 0, extra=extra)
        else:
            order = ORDER["Link.step"]
            vals = {"net": net}
            extra = dict(kw)
            chain_ = True
            for n_ in order[1:]:
                if n_ == "engine":
                    v_ = engine
                elif n_ == "positive_next_speed":
                    v_ = pn_speed
                elif n_ == "positive_next_density":
                    v_ = pn_density
                elif n_ in ("delta", "phi"):
                    v_ = extra.pop(n_, None)
                elif n_ in extra:
                    v_ = extra.pop(n_)
                else:
                    chain_ = False  # a required model parameter is missing: everything else by keyword
                    break
                vals[n_] = v_
            if not chain_:
                vals = {"net": net}
                extra = dict(kw, engine=engine, positive_next_speed=pn_speed, positive_next_density=pn_density)
            callform(el.step, order, vals, 0, extra=extra)


OPT_ALL = OPT_INIT + ("positive_next_speed", "positive_next_density", "positive_next_queue")


def encode_opts(kw):
    """A requested option may be written True, numpy.True_ (e.g. `(v < 0).any()`) or 1 (a 0/1 switch from a
    configuration): all of them ask for the same clamp at zero."""
    from vf.desc import FORMS

    r = FORMS["rng"]
    if r is None:
        return kw
    import numpy as np

    for o in OPT_ALL:
        if kw.get(o) is True and r.random() < 0.4:
            kw[o] = np.True_ if r.random() < 0.5 else 1
        elif o not in kw and r.random() < 0.15:
            # an option that is OFF written out: False, 0, numpy.False_, or None (`settings.get(name)` of a
            # missing key)
            kw[o] = r.choice((False, None, None, 0, np.False_))
    return kw


EXTRA_KEYS = {"L": 1, "lanes": 3, "C": 2000, "rho_max": 48.0, "rho_crit": 12.0, "v_free": 55.0, "a": 1.1, "lam": 7, "name": "model"}


def splat_all_constants(kw):
    """The "all model constants in one dict, splatted into the call" idiom (the repository's own tests do
    it): keys the step does not consume (L, lanes, C, rho_max, ...) ride along and are ignored."""
    from vf.desc import FORMS

    r = FORMS["rng"]
    if r is not None and r.random() < 0.2:
        for k_, v_ in EXTRA_KEYS.items():
            if k_ not in kw and r.random() < 0.6:
                kw[k_] = v_
    return kw


def do_step(net, via="net", rng=None, **kw):
    """One step of `net`, through ``Network.step`` or through the element-level calls; an installed
    StepMonitor observes both the same way."""
    kw = splat_all_constants(encode_opts(kw))
    if via == "net":
        kw.pop("only_init", None)
        from vf.desc import ORDER, callform

        from vf.desc import FORMS

        order = ORDER["Network.step"]
        vals = {}
        if FORMS["rng"] is not None and FORMS["rng"].random() < 0.3:
            for n_ in order[2:]:
                kw.setdefault(n_, False)  # the options written out explicitly
        if "init_conditions" in kw or "engine" in kw:
            vals = {"init_conditions": kw.pop("init_conditions", None), "engine": kw.pop("engine", None)}
            for n_ in order[2:]:
                if n_ in kw:
                    vals[n_] = kw.pop(n_)
                else:
                    break
        return callform(net.step, order, vals, 0, extra=kw)
    mon = getattr(type(net).step, "_vf_monitor", None)
    run = lambda: step_elements(net, via, rng=rng, **kw)  # noqa: E731
    if mon is not None and mon.enabled:
        return mon.around(net, (), kw, run)
    return run()


def pick_via(rng, p=0.25):
    return rng.choice(VIAS[1:]) if rng.random() < p else "net"


def step_pars(pars):
    """Model parameters as keyword arguments (delta/phi omitted when absent)."""
    return {k: v for k, v in pars.items() if v is not None}


def integerise(vals):
    """Same values rounded to whole numbers (metering rates to 0/1); infinities are kept."""
    out = {}
    for k, d in vals.items():
        e = {}
        for a, v in d.items():
            if isinstance(v, list):
                e[a] = [x if math.isinf(x) else float(round(x)) for x in v]
            else:
                e[a] = v if math.isinf(v) else float(round(v))
        out[k] = e
    return out


def as_user_mapping(ic):
    """The init_conditions mapping as a user may hold it: a dict, a defaultdict(dict) filled element by
    element, an OrderedDict, a UserDict (chosen by the call-form generator; plain dict when it is off)."""
    from vf.desc import FORMS

    r = FORMS["rng"]
    if r is None or r.random() < 0.7:
        return ic
    import collections

    k = r.random()
    if k < 0.5:
        out = collections.defaultdict(dict)
        out.update(ic)
        return out
    if k < 0.8:
        return collections.OrderedDict(ic)
    return collections.UserDict(ic)


def np_init(built, vals, scalar_shape="vec1", readonly=False, int_dtype=False, shuffle_keys=None):
    """init_conditions for the NumPy engine.  scalar_shape: 'vec1' -> shape (1,),
    '0d' -> 0-d arrays, 'float' -> python floats.  int_dtype: whole-number values are passed
    as integer arrays (the same traffic state written without a decimal point).
    shuffle_keys: a random.Random that shuffles the key order of every dictionary."""
    lay = var_layout(built.desc)
    linkids = set(built.links)
    ic = {}
    for eid, L in lay.items():
        d = {}
        for grp in ("states", "actions", "disturbances"):
            for name, n in L[grp]:
                x = vals[eid][name]
                if eid in linkids:
                    a = np.array(x, dtype=float).reshape(n)
                else:
                    if scalar_shape == "vec1":
                        a = np.array([x], dtype=float)
                    elif scalar_shape == "0d":
                        a = np.array(x, dtype=float)
                    else:
                        a = float(x)
                if int_dtype and isinstance(a, np.ndarray) and np.all(np.isfinite(a)) and np.all(a == np.round(a)):
                    a = a.astype(np.int64)
                if readonly and isinstance(a, np.ndarray):
                    a.flags.writeable = False
                d[name] = a
        if d:
            if shuffle_keys is not None:
                ks = list(d)
                shuffle_keys.shuffle(ks)
                d = {k_: d[k_] for k_ in ks}
            ic[built.el(eid)] = d
    if shuffle_keys is not None:
        ks = list(ic)
        shuffle_keys.shuffle(ks)
        ic = {k_: ic[k_] for k_ in ks}
    return as_user_mapping(ic)


def read_next(built):
    """{id: {name: list|float}} from el.next_states (numeric engines)."""
    out = {}
    lay = var_layout(built.desc)
    linkids = set(built.links)
    for eid, L in lay.items():
        el = built.el(eid)
        if not L["states"]:
            continue
        d = {}
        for name, n in L["states"]:
            a = np.asarray(el.next_states[name], dtype=float).ravel()
            d[name] = [float(t) for t in a] if eid in linkids else float(a[0])
        out[eid] = d
    return out


SEG_WORDS = ("upstream", "middle", "downstream", "exit", "km9", "km10", "b", "a", "zeta", "gantry", "x12", "x2", "last")


def sym_init(M, built, symtype, symvals=None, vals=None, prefix="", shuffle_keys=None, named_scalars=None):
    """Creates one symbol per declared variable and returns (init_conditions, syms)
    where syms = {id: {name: symbol}}.  Registers the values in symvals."""
    import casadi as cs

    XX = getattr(cs, symtype)
    lay = var_layout(built.desc)
    ic, syms = {}, {}
    for eid, L in lay.items():
        d = {}
        for grp in ("states", "actions", "disturbances"):
            for name, n in L[grp]:
                sname = f"{prefix}{name}_{eid}"
                if named_scalars is not None and symtype == "SX" and n >= 2 and named_scalars.random() < 0.5:
                    # a vector assembled from individually named scalar symbols (one per segment, as a
                    # modelling layer may hand them over), in no particular alphabetical order
                    words = named_scalars.sample(SEG_WORDS, n) if n <= len(SEG_WORDS) else [f"s{j}" for j in range(n)]
                    parts = [XX.sym(f"{sname}_{w_}") for w_ in words]
                    s = cs.vertcat(*parts)
                    if symvals is not None and vals is not None:
                        for p_, x_ in zip(parts, vals[eid][name]):
                            symvals.set(p_.name(), x_)
                    d[name] = s
                    continue
                s = XX.sym(sname, n, 1)
                d[name] = s
                if symvals is not None and vals is not None:
                    symvals.set(sname, vals[eid][name])
        if d:
            syms[eid] = d
            if shuffle_keys is not None:
                ks = list(d)
                shuffle_keys.shuffle(ks)
                d = {k_: d[k_] for k_ in ks}
            ic[built.el(eid)] = d
    return as_user_mapping(ic), syms


def register_vals(symvals, syms, vals, prefix=""):
    for eid, d in syms.items():
        for name, s in d.items():
            symvals.set(s.name() if s.numel() == 1 or not hasattr(s, "name") else f"{prefix}{name}_{eid}", vals[eid][name])


def flat_inputs(desc, vals, order_ids=None):
    """(x, u, d) flat lists in 'element order, key order'."""
    lay = var_layout(desc)
    ids = order_ids or list(lay)
    out = {"states": [], "actions": [], "disturbances": []}
    for grp in out:
        for eid in ids:
            for name, n in lay[eid][grp]:
                v = vals[eid][name]
                out[grp] += list(v) if isinstance(v, list) else [v]
    return out["states"], out["actions"], out["disturbances"]


def finite(x):
    return isinstance(x, (int, float)) and math.isfinite(x)
