"""Scalar reference of one METANET step (Hegyi 2004, ch. 3), `math` only.

Written per segment with explicit loops; shares no code and no vector idiom with
``sym_metanet``.  Works on a plain description (see ``desc.py``) and plain
lists of floats.

ref_step(desc, vals, pars, opts) -> Result with
  .next[id]   = {"rho": [...], "v": [...]} or {"w": float}
  .q[id]      = per-segment flows of link id
  .qo[id]     = flow of origin id
  .q0[id], .v0[id], .rho_dn[id]  = boundary values used for link id
  .vdrop_alt[id] = next speed of the last segment *without* the lane term when the
                   lane term is a lane *gain* (thesis silent) else None
  .branches   = sorted tuple of (site, active-branch) facts
"""
import math


class Singular(Exception):
    """The model's own 0/0 (merge with zero total inflow, bifurcation with zero
    total first-segment density)."""


class Inadmissible(Exception):
    """Inputs outside the admissible domain of the reference."""


def _tie(a, b, na, nb):
    if a == b:
        return "tie"
    return na if a < b else nb


def veq(rho, v_free, rho_crit, a):
    if rho < 0:
        raise Inadmissible("negative density")
    return v_free * math.exp(-(1.0 / a) * (rho / rho_crit) ** a)


def ramp_flow(d, w, C, r, rho_max, rho1, rho_crit, T, eq, br, site):
    demand = d + w / T
    space = (rho_max - rho1) / (rho_max - rho_crit)
    if eq == "in":
        inner = min(r, space)
        br.append((site + ".inner", _tie(r, space, "rate", "space")))
        cap = C * inner
        br.append((site + ".outer", _tie(demand, cap, "demand", "cap")))
        return min(demand, cap)
    if eq == "out":
        inner = min(1.0, space)
        br.append((site + ".inner", _tie(1.0, space, "one", "space")))
        cap = C * inner
        br.append((site + ".outer", _tie(demand, cap, "demand", "cap")))
        return r * min(demand, cap)
    raise Inadmissible(f"unknown ramp equation {eq!r}")


def simple_ramp_flow(qdes, d, w, C, rho_max, rho1, rho_crit, T, eq, br, site):
    if eq == "unlimited":
        br.append((site, "unlimited"))
        return qdes
    if eq != "limited":
        raise Inadmissible(f"unknown simplified ramp equation {eq!r}")
    demand = d + w / T
    space = (rho_max - rho1) / (rho_max - rho_crit)
    inner = min(1.0, space)
    br.append((site + ".inner", _tie(1.0, space, "one", "space")))
    cap = C * inner
    m = min(qdes, demand, cap)
    who = [n for n, x in (("des", qdes), ("demand", demand), ("cap", cap)) if x == m]
    br.append((site + ".outer", who[0] if len(who) == 1 else "tie"))
    return m


def mainstream_flow(d, w, v_ctrl, v1, rho_crit, a, v_free, lam, T, br, site):
    V_crit = veq(rho_crit, v_free, rho_crit, a)
    v_lim = min(v_ctrl, v1)
    br.append((site + ".vlim", _tie(v_ctrl, v1, "ctrl", "first")))
    ratio = v_lim / v_free
    # documented NaN guard of the library (named by the property's anchors): the
    # ratio inside the logarithm is limited to [0.05, 1].
    if ratio < 0.05:
        br.append((site + ".guard", "lo"))
        ratio = 0.05
    elif ratio > 1.0:
        br.append((site + ".guard", "hi"))
        ratio = 1.0
    else:
        br.append((site + ".guard", "mid"))
    if v_lim < V_crit:
        q_lim = lam * v_lim * rho_crit * (-a * math.log(ratio)) ** (1.0 / a)
        br.append((site + ".qlim", "speed"))
    else:
        q_lim = lam * V_crit * rho_crit
        br.append((site + ".qlim", "cap"))
    demand = d + w / T
    br.append((site + ".outer", _tie(demand, q_lim, "demand", "lim")))
    return min(demand, q_lim)


class Result:
    __slots__ = (
        "next",
        "q",
        "qo",
        "q0",
        "v0",
        "rho_dn",
        "vdrop_alt",
        "branches",
        "node_class",
        "veq",
        "mag",
    )


def topology(desc):
    """in/out link lists per node, origin/destination per node (ids)."""
    ins = {n: [] for n in desc["nodes"]}
    outs = {n: [] for n in desc["nodes"]}
    for l in desc["links"]:
        outs[l["up"]].append(l)
        ins[l["down"]].append(l)
    org = {}
    for o in desc["origins"]:
        org[o["node"]] = o
    dst = {}
    for d in desc["dests"]:
        dst[d["node"]] = d
    return ins, outs, org, dst


def ref_step(desc, vals, pars, opts=None):
    opts = opts or {}
    T = pars["T"]
    tau = pars["tau"]
    eta = pars["eta"]
    kappa = pars["kappa"]
    delta = pars.get("delta")
    phi = pars.get("phi")
    ins, outs, org, dst = topology(desc)
    linkof = {l["id"]: l for l in desc["links"]}
    br = []
    res = Result()
    res.next, res.q, res.qo, res.q0, res.v0, res.rho_dn = {}, {}, {}, {}, {}, {}
    res.vdrop_alt, res.node_class, res.veq = {}, {}, {}
    res.mag = {}

    # --- admissibility of what the reference is asked to evaluate
    for l in desc["links"]:
        s = vals[l["id"]]
        if len(s["rho"]) != l["N"] or len(s["v"]) != l["N"]:
            raise Inadmissible("state length differs from segment count")
        for x in list(s["rho"]) + list(s["v"]):
            if not math.isfinite(x):
                raise Inadmissible("non-finite state")

    # --- (3.1) flows of every segment
    for l in desc["links"]:
        s = vals[l["id"]]
        res.q[l["id"]] = [s["rho"][i] * s["v"][i] * l["lam"] for i in range(l["N"])]
        if l.get("user_cap") is not None:  # user-defined link kind: segment flows capped
            res.q[l["id"]] = [min(x, l["user_cap"]) for x in res.q[l["id"]]]
            br.append(("user.link", "capped-flow"))

    # --- origin flows
    for o in desc["origins"]:
        oid = o["id"]
        out = outs[o["node"]]
        if len(out) != 1:
            raise Inadmissible("origin node must have exactly one leaving link")
        lk = out[0]
        ls = vals[lk["id"]]
        site = "org:" + o["kind"] + ":" + str(o.get("eq"))
        if o["kind"] == "ideal":
            res.qo[oid] = res.q[lk["id"]][0]
            if o.get("user_q") is not None:  # user-defined boundary origin: prescribed flow
                res.qo[oid] = o["user_q"]
                br.append(("user.origin", "prescribed-flow"))
            br.append((site, "ideal"))
            continue
        ov = vals[oid]
        if o["kind"] == "main":
            res.qo[oid] = mainstream_flow(
                ov["d"],
                ov["w"],
                ov["v_ctrl"],
                ls["v"][0],
                lk["rho_crit"],
                lk["a"],
                lk["v_free"],
                lk["lam"],
                T,
                br,
                site,
            )
            if o.get("user_cap_flow") is not None:  # user kind: inflow additionally capped
                res.qo[oid] = min(res.qo[oid], o["user_cap_flow"])
                br.append(("user.origin", "capped-mainstream-flow"))
        elif o["kind"] == "ramp":
            res.qo[oid] = ramp_flow(
                ov["d"],
                ov["w"],
                o["C"],
                ov["r"],
                lk["rho_max"],
                ls["rho"][0],
                lk["rho_crit"],
                T,
                o["eq"],
                br,
                site,
            )
        elif o["kind"] == "simple":
            res.qo[oid] = simple_ramp_flow(
                ov["q"],
                ov["d"],
                ov["w"],
                o["C"],
                lk["rho_max"],
                ls["rho"][0],
                lk["rho_crit"],
                T,
                o["eq"],
                br,
                site,
            )
        else:
            raise Inadmissible(f"unknown origin kind {o['kind']!r}")
        # queue update  w+ = w + T (d - q_o)
        wn = ov["w"] + T * (ov["d"] - res.qo[oid])
        if desc.get("user_engine_laws"):  # ... and its own queue update: a finite storage space
            wn = min(wn, desc["user_engine_laws"]["storage"])
        if opts.get("positive_next_queue"):
            wn = max(0.0, wn)
        res.next[oid] = {"w": wn}
        res.mag[oid] = {"w": abs(ov["w"]) + T * (abs(ov["d"]) + abs(res.qo[oid]))}

    # --- node rules (section 3.2.2)
    Qn, Vn = {}, {}
    for n in desc["nodes"]:
        nin, nout = len(ins[n]), len(outs[n])
        o = org.get(n)
        cls = (
            min(nin, 2),
            min(nout, 2),
            (o["kind"] if o else "-"),
            (dst[n]["kind"] if n in dst else "-"),
        )
        res.node_class[n] = cls
        Q = 0.0
        for l in ins[n]:
            Q += res.q[l["id"]][-1]
        Qin = Q
        if o is not None:
            Q += res.qo[o["id"]]
        Qn[n] = Q
        if nin == 0 and o is not None and o.get("user_v") is not None:
            Vn[n] = o["user_v"]  # user-defined boundary origin: prescribed upstream speed
            br.append(("user.origin", "prescribed-speed"))
        elif nin == 0:
            Vn[n] = None  # own first-segment speed of the leaving link
        elif nin == 1:
            Vn[n] = vals[ins[n][0]["id"]]["v"][-1]
        else:
            if Qin == 0.0:
                Vn[n] = Singular
            else:
                Vn[n] = (
                    sum(vals[l["id"]]["v"][-1] * res.q[l["id"]][-1] for l in ins[n])
                    / Qin
                )

    def downstream_density(n, lk):
        r_ = _stock_downstream_density(n, lk)
        b_ = (desc.get("node_block") or {}).get(n)
        if b_ is not None:  # user-defined node kind: a look-ahead reading averaged in
            br.append(("user.node", "blocked-downstream-density"))
            r_ = 0.5 * (r_ + b_)
        return r_

    def _stock_downstream_density(n, lk):
        if n in dst:
            d = dst[n]
            rhoN = vals[lk["id"]]["rho"][-1]
            free = min(rhoN, lk["rho_crit"])
            site = "dst:" + d["kind"]
            br.append((site + ".min", _tie(rhoN, lk["rho_crit"], "rho", "crit")))
            if d["kind"] == "free":
                return free
            scen = vals[d["id"]]["d"]
            br.append((site + ".max", _tie(scen, free, "free", "scen")))
            if desc.get("user_engine_laws"):  # a user-defined engine's own congested-destination law (vf.workloads)
                return 0.5 * (max(free, scen) + scen)
            return max(free, scen)
        out = outs[n]
        if not out:
            raise Inadmissible("sink node without destination")
        if len(out) == 1:
            return vals[out[0]["id"]]["rho"][0]
        s1 = sum(vals[m["id"]]["rho"][0] for m in out)
        if s1 == 0.0:
            raise Singular("bifurcation with zero total first-segment density")
        return sum(vals[m["id"]]["rho"][0] ** 2 for m in out) / s1

    # --- links
    for l in desc["links"]:
        lid = l["id"]
        N, lam, L = l["N"], l["lam"], l["L"]
        s = vals[lid]
        rho, v, q = s["rho"], s["v"], res.q[lid]
        up, dn = l["up"], l["down"]
        # inflow: turn-rate share of the node's total flow
        sb = sum(m["beta"] for m in outs[up])
        q0 = l["beta"] / sb * Qn[up]
        if desc.get("split_rule") == "absolute":
            # a user-defined engine's own node model (C13): q = beta * Q wherever the block layer asks the engine
            # for the split (several entering links, or one entering and several leaving ones); elsewhere the
            # whole node flow goes into the single leaving link
            if len(ins[up]) >= 2 or (len(ins[up]) == 1 and len(outs[up]) >= 2):
                q0 = l["beta"] * Qn[up]
            else:
                q0 = Qn[up]
        if desc.get("node_off", {}).get(up) is not None:
            # user-defined node kind: an unmodelled exit at the node takes that share of whatever a leaving link would get
            q0 = (1.0 - desc["node_off"][up]) * q0
            br.append(("user.node", "off-ramp-share"))
        if Vn[up] is Singular:
            raise Singular("merge with zero total inflow")
        v0 = v[0] if Vn[up] is None else Vn[up]
        rdn = downstream_density(dn, l)
        res.q0[lid], res.v0[lid], res.rho_dn[lid] = q0, v0, rdn
        br.append(("node.up", res.node_class[up][:3]))
        br.append(("node.dn", (res.node_class[dn][1], res.node_class[dn][3])))
        br.append(("N", min(N, 3)))

        # equilibrium speed (3.4) with speed limits (3.11)
        V = [veq(rho[i], l["v_free"], l["rho_crit"], l["a"]) for i in range(N)]
        if l.get("vsl") is not None:
            vc = vals[lid]["v_ctrl"]
            # the constructor sorts what it is given; a list edited in place afterwards is used in its live order
            segs = list(l["vsl"]) if l.get("vsl_live_order") else sorted(l["vsl"])
            if len(vc) != len(segs):
                raise Inadmissible("speed-limit vector length")
            br.append(("vsl.n", min(len(segs), 2)))
            for k, i in enumerate(segs):
                lim = (1.0 + l["alpha"]) * vc[k]
                br.append(("vsl", _tie(V[i], lim, "veq", "limit")))
                V[i] = min(V[i], lim)
        res.veq[lid] = V

        rn, vn = [], []
        mr, mv = [], []
        for i in range(N):
            q_up = q0 if i == 0 else q[i - 1]
            v_up = v0 if i == 0 else v[i - 1]
            r_dn = rdn if i == N - 1 else rho[i + 1]
            # (3.2)
            rn.append(rho[i] + T / (L * lam) * (q_up - q[i]))
            # (3.3)
            vn.append(
                v[i]
                + T / tau * (V[i] - v[i])
                + T / L * v[i] * (v_up - v[i])
                - eta * T / (tau * L) * (r_dn - rho[i]) / (rho[i] + kappa)
            )
            mr.append(abs(rho[i]) + T / (L * lam) * (abs(q_up) + abs(q[i])))
            mv.append(
                abs(v[i])
                + T / tau * (abs(V[i]) + abs(v[i]))
                + T / L * abs(v[i]) * (abs(v_up) + abs(v[i]))
                + eta * T / (tau * L) * (abs(r_dn) + abs(rho[i])) / (rho[i] + kappa)
            )
        # (3.7) merging term
        o = org.get(up)
        merging = (
            delta is not None
            and o is not None
            and (o["kind"] in ("ramp", "simple") or o.get("declared_ramp"))
            and len(ins[up]) > 0
        )
        br.append(("merge", bool(merging)))
        if merging:
            mterm = delta * T * res.qo[o["id"]] * v[0] / (L * lam * (rho[0] + kappa))
            vn[0] -= mterm
            mv[0] += abs(mterm)
        # (3.8) lane drop
        alt = None
        lane = "none"
        if phi is not None and len(outs[dn]) == 1:
            dl = lam - outs[dn][0]["lam"]
            if dl != 0:
                term = phi * T * dl * rho[-1] * v[-1] ** 2 / (L * lam * l["rho_crit"])
                if dl < 0:
                    # lane gain: eq. 3.8 defines the lane difference as lam_m - lam_mu and is taken literally (signed term);
                    # the "no term" reading was accepted until round 17 (alt stays None now, see DESIGN section 1 / round 17)
                    lane = "gain"
                else:
                    lane = "drop"
                vn[-1] -= term
                mv[-1] += abs(term)
        br.append(("lane", lane))
        if opts.get("positive_next_density"):
            rn = [max(0.0, x) for x in rn]
        if opts.get("positive_next_speed"):
            vn = [max(0.0, x) for x in vn]
            if alt is not None:
                alt = max(0.0, alt)
        res.vdrop_alt[lid] = alt
        res.next[lid] = {"rho": rn, "v": vn}
        res.mag[lid] = {"rho": mr, "v": mv}
    res.branches = tuple(sorted(set((a, str(b)) for a, b in br)))
    return res


def is_singular(desc, vals):
    """True iff the inputs hit the model's own 0/0."""
    ins, outs, org, dst = topology(desc)
    for n in desc["nodes"]:
        if len(ins[n]) >= 2:
            Q = sum(
                vals[l["id"]]["rho"][-1] * vals[l["id"]]["v"][-1] * l["lam"]
                for l in ins[n]
            )
            if Q == 0.0 and outs[n]:
                return True
        if len(outs[n]) >= 2 and n not in dst and ins[n]:
            if sum(vals[m["id"]]["rho"][0] for m in outs[n]) == 0.0:
                return True
    return False
