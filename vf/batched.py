"""Batched (2-D) calls of the engine primitives.

The reducing node primitives sum over the link axis (axis 0 / ``sum1``), the link primitives index
segments along axis 0: handing them an (n x K) array - one column per time instant of a logged
trajectory, per scenario, per stage of a horizon - evaluates K independent cases at once on the
unchanged library, in both engines.  Oracle: the batch equals the K single-column calls (so a column
never depends on another one), and for the node split the shares of a node add up to its inflow.
"""
import math

import numpy as np

NODE_PRIMS = ("get_downstream_density", "get_upstream_speed", "get_upstream_flow")
ALL_PRIMS = NODE_PRIMS + ("controlled_Veq", "Veq")


def _close(a, b):
    if math.isnan(a) or math.isnan(b):
        return math.isnan(a) and math.isnan(b)
    return a == b or abs(a - b) <= 1e-11 * (1.0 + abs(a) + abs(b))


def batched_primitives(M, rec, rng, prop, reps, which=ALL_PRIMS, monitors=()):
    import casadi as cs
    import sym_metanet.engines.casadi as EC
    import sym_metanet.engines.numpy as EN

    saved = [(m, m.enabled) for m in monitors if hasattr(m, "enabled")]
    for m, _e in saved:
        m.enabled = False  # in-situ monitors of the calling check are written for the 1-D calls
    try:
        for _ in range(reps):
            prim = rng.choice(which)
            side = "numpy" if prim == "controlled_Veq" else rng.choice(("numpy", "casadi"))
            E = EN if side == "numpy" else EC
            K = rng.randint(2, 6)
            mat = (lambda cols: np.array(cols, dtype=float).T) if side == "numpy" else (lambda cols: cs.DM(np.array(cols, dtype=float).T.tolist()))
            vec = (lambda xs: np.array(xs, dtype=float)) if side == "numpy" else (lambda xs: cs.DM([float(t) for t in xs]))
            row = (lambda xs: np.array(xs, dtype=float)) if side == "numpy" else (lambda xs: cs.DM([[float(t) for t in xs]]))
            flat = lambda o: np.asarray(o, dtype=float)  # noqa: E731
            rec.count("batched_primitive_calls")
            rec.seen("batched_primitives", (prim, side))
            try:
                if prim == "get_downstream_density":
                    n = rng.randint(2, 4)
                    cols = [[rng.uniform(1, 150) for _i in range(n)] for _j in range(K)]
                    out = flat(E.NodesEngine.get_downstream_density(mat(cols))).ravel()
                    one = [float(flat(E.NodesEngine.get_downstream_density(vec(c))).ravel()[0]) for c in cols]
                elif prim == "get_upstream_speed":
                    n = rng.randint(2, 4)
                    q = [[rng.uniform(10, 5000) for _i in range(n)] for _j in range(K)]
                    v = [[rng.uniform(5, 120) for _i in range(n)] for _j in range(K)]
                    out = flat(E.NodesEngine.get_upstream_speed(mat(q), mat(v))).ravel()
                    one = [float(flat(E.NodesEngine.get_upstream_speed(vec(a), vec(b))).ravel()[0]) for a, b in zip(q, v)]
                elif prim == "get_upstream_flow":
                    n, m = rng.randint(1, 3), rng.randint(2, 4)
                    q = [[rng.uniform(10, 5000) for _i in range(n)] for _j in range(K)]
                    varying = rng.random() < 0.6  # turn rates that change from column to column
                    bs = [[rng.uniform(0.1, 2.5) for _i in range(m)] for _j in range(K)] if varying else [[rng.uniform(0.1, 2.5) for _i in range(m)]] * K
                    qo = [rng.uniform(0, 2000) for _j in range(K)] if rng.random() < 0.5 else None
                    outs, ones = [], []
                    for i in range(m):  # one call per leaving link
                        beta = row([b[i] for b in bs]) if varying else bs[0][i]
                        betas = mat(bs) if varying else vec(bs[0])
                        args = (mat(q), beta, betas) + ((row(qo),) if qo is not None else ())
                        outs.append(flat(E.NodesEngine.get_upstream_flow(*args)).ravel())
                        ones.append([float(flat(E.NodesEngine.get_upstream_flow(vec(q[j]), bs[j][i], vec(bs[j]), *(() if qo is None else (qo[j],)))).ravel()[0])
                                     for j in range(K)])
                    # the shares of a node add up to its inflow, column by column
                    for j in range(K):
                        tot = sum(q[j]) + (qo[j] if qo is not None else 0.0)
                        got = sum(float(o[j]) for o in outs)
                        rec.count("batched_scalars_compared")
                        if not abs(got - tot) <= 1e-9 * (1 + abs(tot)):
                            rec.violation(f"{prop}:batched get_upstream_flow:{side}: the flows sent into the leaving links of a node do not add up to its inflow",
                                          {"column": j, "sum_of_shares": got, "inflow": tot, "turn_rates_vary_per_column": varying})
                            break
                    out = np.concatenate(outs)
                    one = [x for o in ones for x in o]
                elif prim == "controlled_Veq":
                    N = rng.randint(2, 6)
                    vsl = sorted(rng.sample(range(N), rng.randint(1, N)))
                    p = dict(v_free=rng.uniform(90, 130), rho_crit=rng.uniform(25, 40), a=rng.uniform(1.2, 3.2))
                    alpha = rng.choice((0.0, 0.1))
                    cols = [[rng.uniform(2, 120) for _i in range(N)] for _j in range(K)]
                    form = rng.choice(("per column", "one column for all", "scalar"))
                    lim = [[rng.uniform(20, 100) for _i in vsl] for _j in range(K)]
                    if form != "per column":
                        lim = [lim[0]] * K
                    if form == "scalar":
                        lim = [[lim[0][0]] * len(vsl)] * K
                    vc = np.array(lim, dtype=float).T if form == "per column" else (np.array(lim[0], dtype=float).reshape(-1, 1) if form == "one column for all" else float(lim[0][0]))
                    out = flat(E.LinksEngine.controlled_Veq(np.array(cols, dtype=float).T, vc, list(vsl), alpha, p["v_free"], p["rho_crit"], p["a"]))
                    one = np.array([flat(E.LinksEngine.controlled_Veq(np.array(c, dtype=float), np.array(l_, dtype=float), list(vsl), alpha,
                                                                       p["v_free"], p["rho_crit"], p["a"])).ravel() for c, l_ in zip(cols, lim)]).T
                    out, one = out.ravel(), one.ravel()
                else:
                    N = rng.randint(2, 5)
                    p = dict(v_free=rng.uniform(90, 130), rho_crit=rng.uniform(25, 40), a=rng.uniform(1.2, 3.2))
                    cols = [[rng.uniform(0, 190) for _i in range(N)] for _j in range(K)]
                    out = flat(E.LinksEngine.Veq(mat(cols), p["v_free"], p["rho_crit"], p["a"])).ravel()
                    one = np.array([flat(E.LinksEngine.Veq(vec(c), p["v_free"], p["rho_crit"], p["a"])).ravel() for c in cols]).T.ravel()
            except Exception as e:
                rec.violation(f"{prop}:batched {prim}:{side}: raised {type(e).__name__} on an (n x K) batch", {"exception": repr(e)[:300]})
                continue
            out = [float(x) for x in np.asarray(out, dtype=float).ravel()]
            one = [float(x) for x in np.asarray(one, dtype=float).ravel()]
            if len(out) != len(one):
                rec.violation(f"{prop}:batched {prim}:{side}: an (n x K) batch does not return one result per column",
                              {"returned": len(out), "expected": len(one)})
                continue
            for i, (x, y) in enumerate(zip(out, one)):
                rec.count("batched_scalars_compared")
                if not _close(x, y):
                    rec.violation(f"{prop}:batched {prim}:{side}: a column of an (n x K) batch differs from the same column evaluated alone",
                                  {"index": i, "batched": x, "alone": y})
                    break
    finally:
        for m, e in saved:
            m.enabled = e
