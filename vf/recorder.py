"""Counters, coverage sets, violations grouped by mechanism, replay files, evidence
files and the three-valued verdict."""
import hashlib
import json
import os
import time

from vf.env import VERIF_DIR

KNOWN_FINDINGS = os.path.join(VERIF_DIR, "known_findings.json")


def _jsonable(x):
    import math

    if isinstance(x, dict):
        return {str(k): _jsonable(v) for k, v in x.items()}
    if isinstance(x, (list, tuple, set, frozenset)):
        xs = list(x)
        if isinstance(x, (set, frozenset)):
            xs = sorted(xs, key=repr)
        return [_jsonable(v) for v in xs]
    if isinstance(x, bool) or x is None or isinstance(x, (int, str)):
        return x
    if isinstance(x, float):
        if math.isnan(x):
            return "nan"
        if math.isinf(x):
            return "inf" if x > 0 else "-inf"
        return x
    try:
        import numpy as np

        if isinstance(x, np.ndarray):
            return _jsonable(x.tolist())
        if isinstance(x, np.generic):
            return _jsonable(x.item())
    except Exception:
        pass
    return repr(x)


class Recorder:
    def __init__(self, prop: str, tier: str, seed: int):
        self.prop = prop
        self.tier = tier
        self.seed = seed
        self.t0 = time.time()
        self.counters = {}
        self.cover = {}  # name -> set of hashable (stored as repr strings)
        self.samples = []
        self.violations = {}  # mechanism -> dict(witness=..., count=n)
        self.inconclusive = []
        self.notes = []
        self.max_samples = 6
        self.assumptions = []
        self.rule = ""
        self.exhaustive = None
        self.extra = {}

    # ---- counting ----
    def count(self, name, n=1):
        self.counters[name] = self.counters.get(name, 0) + n

    def seen(self, setname, item):
        self.cover.setdefault(setname, set()).add(item if isinstance(item, str) else repr(item))

    def n_seen(self, setname):
        return len(self.cover.get(setname, ()))

    def sample(self, obj, force=False):
        if force or len(self.samples) < self.max_samples:
            self.samples.append(_jsonable(obj))

    # ---- verdict pieces ----
    def violation(self, mechanism: str, witness):
        """Records one violation; the first witness per mechanism is kept."""
        v = self.violations.get(mechanism)
        if v is None:
            self.violations[mechanism] = {"witness": _jsonable(witness), "count": 1}
        else:
            v["count"] += 1

    def inconclusive_because(self, reason: str):
        if reason not in self.inconclusive:
            self.inconclusive.append(reason)

    def gate(self, cond: bool, reason: str):
        if not cond:
            self.inconclusive_because(reason)

    # ---- shard merging ----
    def dump_state(self):
        return {
            "counters": self.counters,
            "cover": {k: sorted(v) for k, v in self.cover.items()},
            "samples": self.samples,
            "violations": self.violations,
            "inconclusive": self.inconclusive,
            "extra": self.extra,
        }

    def merge_state(self, st):
        for k, v in st["counters"].items():
            self.count(k, v)
        for k, v in st["cover"].items():
            self.cover.setdefault(k, set()).update(v)
        for s in st["samples"]:
            if len(self.samples) < self.max_samples:
                self.samples.append(s)
        for m, v in st["violations"].items():
            if m in self.violations:
                self.violations[m]["count"] += v["count"]
            else:
                self.violations[m] = v
        for r in st["inconclusive"]:
            self.inconclusive_because(r)
        for k, v in st.get("extra", {}).items():
            self.extra.setdefault(k, v)

    # ---- finishing ----
    def finish(self, evaluations_key, distinct_sets, rule, level="exploration",
               exhaustive=None, assumptions=None, write=True):
        """Writes evidence, prints verdict lines and returns the exit code.

        evaluations_key: counter name (or list of names, summed) holding the number of
        oracle decisions; distinct_sets: coverage-set names whose sizes are summed into
        distinct_nontrivial.
        """
        if self.extra.get("call_forms_exercised"):
            rule += ("; every public call the workload makes (constructors, add_*, Network.step, element-level init_vars/step, "
                     "to_function) is written with a random number of leading arguments positional in the documented order and the "
                     "rest by keyword (coverage.call_forms_exercised counts what was used), flow-equation names are strings built at "
                     "run time, init_conditions are held in dict / defaultdict / OrderedDict / UserDict")
        keys = [evaluations_key] if isinstance(evaluations_key, str) else list(evaluations_key)
        evaluations = sum(self.counters.get(k, 0) for k in keys)
        distinct = sum(self.n_seen(s) for s in distinct_sets)
        if evaluations == 0:
            self.inconclusive_because("no oracle evaluation took place")
        if distinct < 2:
            self.inconclusive_because("fewer than two distinct non-trivial cases observed")

        known = load_known_findings().get(self.prop, [])
        new_violations = {}
        known_hits = {}
        for mech, v in self.violations.items():
            hit = None
            for kf in known:
                if kf.get("status") == "open" and kf.get("mechanism") == mech:
                    hit = kf
            if hit is not None:
                known_hits[mech] = (hit, v)
            else:
                new_violations[mech] = v

        replay_paths = {}
        for mech, v in new_violations.items():
            d = os.path.join(VERIF_DIR, "replays", self.prop)
            os.makedirs(d, exist_ok=True)
            h = hashlib.sha1(mech.encode()).hexdigest()[:12]
            p = os.path.join(d, h + ".json")
            with open(p, "w") as f:
                json.dump(
                    {"property": self.prop, "mechanism": mech, "seed": self.seed,
                     "tier": self.tier, "count": v["count"], "witness": v["witness"]},
                    f, indent=1,
                )
            replay_paths[mech] = p

        wall = time.time() - self.t0
        ev = {
            "property_id": self.prop,
            "tier": self.tier,
            "seed": self.seed,
            "level": level,
            "coverage": {
                "evaluations": int(evaluations),
                "distinct_nontrivial": int(distinct),
                "rule": rule,
                "samples": self.samples[: self.max_samples] or ["(no sample recorded)"],
                "counters": dict(sorted(self.counters.items())),
                "coverage_sets": {k: len(v) for k, v in sorted(self.cover.items())},
                "coverage_set_members": {
                    k: sorted(v)[:40] for k, v in sorted(self.cover.items())
                },
            },
            "assumptions": (assumptions or []) + self.assumptions,
            "wall_s": round(wall, 3),
            "violations": len(new_violations),
        }
        if exhaustive is not None:
            ev["coverage"]["exhaustive"] = bool(exhaustive)
        ev["coverage"].update(_jsonable(self.extra))
        if self.inconclusive:
            ev["coverage"]["inconclusive"] = list(self.inconclusive)
        if known_hits:
            ev["coverage"]["known_findings_hit"] = sorted(known_hits)
        if write:
            os.makedirs(os.path.join(VERIF_DIR, "evidence"), exist_ok=True)
            with open(os.path.join(VERIF_DIR, "evidence", self.prop + ".json"), "w") as f:
                json.dump(ev, f, indent=1)

        for mech, (kf, v) in sorted(known_hits.items()):
            print(f"KNOWN-FINDING: property={self.prop} {kf.get('what', mech)}")
        print(
            f"[{self.prop}] tier={self.tier} seed={self.seed} evaluations={evaluations} "
            f"distinct={distinct} wall={wall:.1f}s"
        )
        for k, v in sorted(self.counters.items()):
            print(f"    {k} = {v}")
        for k, v in sorted(self.cover.items()):
            print(f"    |{k}| = {len(v)}")
        if new_violations:
            for mech, p in sorted(replay_paths.items()):
                print(f"  mechanism: {mech}  (x{new_violations[mech]['count']})")
                print(f"VIOLATION property={self.prop} replay={p}")
            return 1
        if self.inconclusive:
            for r in self.inconclusive:
                print(f"INCONCLUSIVE property={self.prop} reason={r}")
            return 2
        print(f"HELD property={self.prop} on everything observed")
        return 0


def load_known_findings():
    try:
        with open(KNOWN_FINDINGS) as f:
            data = json.load(f)
    except FileNotFoundError:
        return {}
    out = {}
    for e in data.get("findings", []):
        out.setdefault(e["property"], []).append(e)
    return out
