"""Calling a compiled ``casadi.Function`` positionally according to the documented
layout and decoding its results.

Documented layout (engines/casadi.py docstring + README): compact<=0 one argument per
(element, variable) — states of all elements, then actions, then disturbances, elements
in the network's enumeration order (links, origins, destinations), variables in the
element's key order; compact==1 one argument per variable *name* in first-appearance
order, elements concatenated in enumeration order; compact>=2 single vectors x, u, d
(concatenation of the level-1 groups).  Parameters trail (one per declared name, or a
single stacked p).  Results: successors of the state arguments in the same layout, then
(more_out) link flows and origin flows.
"""
import numpy as np

from vf.desc import var_layout


def live_order(built):
    """Element ids in the network's own live enumeration order."""
    rev = {id(v): k for k, v in built.elements.items()}
    return [rev[id(e)] for e in built.net.elements]


def arg_groups(desc, order, vals, fixed=(), scaled=None, tied=()):
    """fixed: (element id, variable) pairs that were supplied as numbers to the symbolic step: they are
    not arguments of the function."""
    lay = var_layout(desc)
    groups = {"states": [], "actions": [], "disturbances": []}
    byname = {"states": {}, "actions": {}, "disturbances": {}}
    for grp in groups:
        for eid in order:
            for name, n in lay[eid][grp]:
                if (eid, name) in fixed:
                    continue
                v = vals[eid][name]
                v = list(v) if isinstance(v, list) else [v]
                if (eid, name) in tied:
                    v = v[:1]  # the step was given repmat(u, n, 1): the function's argument is the scalar u
                if scaled and (eid, name) in scaled:
                    # the step was given  a + b * symbol : the function's argument is the symbol
                    a_, b_ = scaled[(eid, name)]
                    v = [(x - a_) / b_ for x in v]
                groups[grp].append((eid, name, v))
                byname[grp].setdefault(name, []).extend(v)
    return groups, byname


def build_args(desc, order, vals, compact, params=None, fixed=(), scaled=None, tied=()):
    import casadi as cs

    groups, byname = arg_groups(desc, order, vals, fixed, scaled, tied)
    G3 = ("states", "actions", "disturbances")
    if compact <= 0:
        args = [cs.DM(v) for grp in G3 for _, _, v in groups[grp]]
        names = [f"{name}_{{{eid}}}" for grp in G3 for eid, name, _ in groups[grp]]
    elif compact == 1:
        args = [cs.DM(v) for grp in G3 for v in byname[grp].values()]
        names = [n for grp in G3 for n in byname[grp].keys()]
    else:
        args = [cs.DM([t for v in byname[grp].values() for t in v]) for grp in G3]
        names = ["x", "u", "d"]
    if params:
        if compact <= 0:
            for k, v in params.items():
                args.append(cs.DM(v))
                names.append(k)
        else:
            args.append(cs.DM([float(t) for v in params.values() for t in np.atleast_1d(v)]))
            names.append("p")
    return args, names, groups, byname


def call_positional(F, desc, order, vals, compact, more_out=False, params=None, fixed=(), scaled=None, tied=()):
    """Returns (x_next {id:{name:list}}, q {link:list} | None, q_o {origin:float} | None)."""
    args, names, groups, byname = build_args(desc, order, vals, compact, params, fixed, scaled, tied)
    out = F(*args)
    out = list(out) if isinstance(out, (list, tuple)) else [out]
    out = [np.asarray(o, dtype=float).ravel().tolist() for o in out]
    return decode_outputs(out, desc, order, groups, byname, compact, more_out)


def decode_outputs(out, desc, order, groups, byname, compact, more_out):
    st_items = [(eid, name, len(v)) for eid, name, v in groups["states"]]
    linkset = {l["id"] for l in desc["links"]}
    orgset = {o["id"] for o in desc["origins"]}
    links = [eid for eid in order if eid in linkset]
    orgs = [eid for eid in order if eid in orgset]
    segs = {l["id"]: l["N"] for l in desc["links"]}
    xn = {}
    q = qo = None
    if compact <= 0:
        k = 0
        for eid, name, n in st_items:
            xn.setdefault(eid, {})[name] = out[k]
            k += 1
        if more_out:
            q = {lid: out[k + i] for i, lid in enumerate(links)}
            k += len(links)
            qo = {oid: out[k + i][0] for i, oid in enumerate(orgs)}
            k += len(orgs)
        nused = k
    else:
        if compact == 1:
            nst = len(byname["states"])
            flat = [t for o in out[:nst] for t in o]
            rest = out[nst:]
            nused = nst
        else:
            flat = out[0]
            rest = out[1:]
            nused = 1
        k = 0
        for name in byname["states"].keys():
            for eid, nm, n in st_items:
                if nm == name:
                    xn.setdefault(eid, {})[name] = flat[k : k + n]
                    k += n
        if k != len(flat):
            raise ValueError(f"state outputs carry {len(flat)} scalars, layout expects {k}")
        if more_out:
            qflat = [t for o in rest for t in o]
            q = {}
            k = 0
            for lid in links:
                q[lid] = qflat[k : k + segs[lid]]
                k += segs[lid]
            qo = {}
            for oid in orgs:
                qo[oid] = qflat[k]
                k += 1
            if k != len(qflat):
                raise ValueError(f"flow outputs carry {len(qflat)} scalars, layout expects {k}")
            nused += len(rest)
    if nused != len(out):
        raise ValueError(f"function returns {len(out)} results, layout expects {nused}")
    return xn, q, qo
