"""Child process of C07: a NumPy-only installation (CasADi is an optional dependency - `import casadi`
fails, sym_metanet falls back to the NumPy engine).  Emulated by blocking the import before sym_metanet is
imported.  Only harness modules that do not need CasADi are used.  Prints one JSON object."""
import json
import math
import os
import random
import sys

sys.modules["casadi"] = None  # `import casadi` raises ImportError from here on
src = os.environ.get("SMN_SRC", "/repo/src")
sys.path.insert(0, src)
sys.path.insert(0, os.path.dirname(os.path.dirname(os.path.abspath(__file__))))
import warnings  # noqa: E402

warnings.simplefilter("ignore")
import numpy as np  # noqa: E402

np.seterr(all="ignore")
out = {"steps_ok": 0, "valid_networks": 0, "violations": [], "import_ok": False}
try:
    import sym_metanet as M  # noqa: E402
    from sym_metanet.engines.numpy import Engine as NE  # noqa: E402

    out["import_ok"] = True
    from vf import desc as D, drive, gen as G, refmodel as R  # noqa: E402

    seed = int(sys.argv[1]) if len(sys.argv) > 1 else 0
    rng = random.Random(seed * 1000 + 77)
    g = G.NetGen(rng)
    shapes = ["chain", "bifurcation", "merge", "crossing", "ramp", "cycle2", "single_seg", "lanedrop", "lanegain", "random"]
    for it in range(40):
        desc = g.all_kinds_network() if it % 5 == 0 else g.network(shapes[it % len(shapes)])[1]
        built = D.build(M, desc, D.random_ops(desc, rng))
        ok, msgs = built.net.is_valid()
        if not ok:
            continue
        out["valid_networks"] += 1
        pars = g.pars(delta=(it % 2 == 0), phi=(it % 3 != 0))
        _, vals = g.values(desc, allow_inf=False)
        for how in ("explicit", "default"):
            try:
                kw = drive.step_pars(pars)
                ic = drive.np_init(built, vals, "vec1")
                if how == "explicit":
                    built.net.step(init_conditions=ic, engine=NE(), **kw)
                else:
                    M.engines.use("numpy")
                    built.net.step(init_conditions=ic, **kw)
                nxt = drive.read_next(built)
                out["steps_ok"] += 1
                if not R.is_singular(desc, vals):
                    bad = [(e, n) for e, d in nxt.items() for n, v in d.items() for x in (v if isinstance(v, list) else [v]) if not math.isfinite(x)]
                    if bad:
                        out["violations"].append({"what": "non-finite output", "where": bad[:3]})
            except Exception as e:  # noqa: BLE001
                out["violations"].append({"what": f"step raised {type(e).__name__} ({how} NumPy engine; delta={'given' if pars['delta'] else 'none'}, phi={'given' if pars['phi'] else 'none'})",
                                          "exception": repr(e)[:200]})
except Exception as e:  # noqa: BLE001
    out["violations"].append({"what": f"sym_metanet cannot be imported / used without CasADi ({type(e).__name__})", "exception": repr(e)[:200]})
print(json.dumps(out))
