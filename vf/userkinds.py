"""User-defined element kinds (README, "Extensions": the blocks are meant to be sub-classed).

They only override public hooks, the way ``SimplifiedMeteredOnRamp`` itself is built:

* ``BoundaryOrigin``  - a queue-less origin that prescribes the boundary flow (``get_flow``) and/or
  the boundary speed (``get_speed``), e.g. from a loop detector;
* ``WorkZoneLink``    - a link whose segment flows are capped (``get_flow``), and whose
  ``step_dynamics`` may hand its results back in another key order;
* ``BufferedDestination`` - a destination that owns a state (occupancy of a finite buffer).

Import only after ``vf.env.setup()`` (so that ``sym_metanet`` is the tree under observation).
Module-level classes: instances can be copied and pickled.
"""
from functools import cached_property, lru_cache

import sym_metanet as M
from sym_metanet.engines.core import get_current_engine
from sym_metanet.util.funcs import invalidate_cache


class BoundaryOrigin(M.Origin):
    _vf_user = True

    def __init__(self, flow=None, speed=None, name=None):
        super().__init__(name)
        self.flow = flow
        self.speed = speed

    def get_flow(self, net, engine=None, **kwargs):
        if self.flow is None:
            return super().get_flow(net, engine=engine, **kwargs)
        return self.flow

    def get_speed(self, net, **kwargs):
        if self.speed is None:
            return super().get_speed(net, **kwargs)
        return self.speed


class WorkZoneLink(M.Link):
    _vf_user = True

    def __init__(self, *args, capacity=None, reorder=False, **kwargs):
        super().__init__(*args, **kwargs)
        self.capacity = capacity
        self.reorder = reorder

    hook = None  # set by a workload: called once from inside get_flow (something else happens "meanwhile")

    def get_flow(self, engine=None, **kwargs):
        q = super().get_flow(engine, **kwargs)
        if self.hook is not None:
            h, self.hook = self.hook, None
            h()
        if self.capacity is None:
            return q
        if engine is None:
            engine = get_current_engine()
        return -engine.max(-q, -self.capacity)  # min(q, capacity) with the engine's own primitive

    def step_dynamics(self, *args, **kwargs):
        nxt = super().step_dynamics(*args, **kwargs)
        if self.reorder:
            return {"v": nxt["v"], "rho": nxt["rho"]}
        return nxt


class BufferedDestination(M.Destination):
    """Discharges into a finite buffer whose occupancy `s` is a state (advanced by the public
    ``element.step``; ``Network.step`` only steps origins and links)."""

    _vf_user = True
    _states = {"s"}
    _disturbances = {"d"}

    def init_vars(self, init_conditions=None, engine=None, **_):
        if engine is None:
            engine = get_current_engine()
        ic = init_conditions or {}
        self.states = {"s": ic["s"] if "s" in ic else engine.var(f"s_{self.name}")}
        self.disturbances = {"d": ic["d"] if "d" in ic else engine.var(f"d_{self.name}")}

    def step_dynamics(self, net, T, engine=None, **_):
        return {"s": self.states["s"] + T * self.disturbances["d"]}


class AlineaRamp(M.MeteredOnRamp):
    """A metered on-ramp that carries the gains of its local controller: still a ramp in every respect."""

    _vf_user = True

    def __init__(self, *args, gain=70.0, **kwargs):
        super().__init__(*args, **kwargs)
        self.gain = gain

    def __len__(self):  # "whole vehicles waiting" as far as plain Python can tell: the object is falsy
        return 0


class HovRamp(M.SimplifiedMeteredOnRamp):
    _vf_user = True

    def __init__(self, *args, share=0.2, **kwargs):
        super().__init__(*args, **kwargs)
        self.share = share

    def __bool__(self):  # e.g. "is the HOV lane open" - nothing the library may rely on
        return False


class BoundaryDetector(M.Origin):
    """A user-defined ideal origin (no override at all)."""

    _vf_user = True


class TtsLink(M.Link):
    """A link that integrates its total time spent in an additional state `tts` (a user-defined kind that
    ADDS a state to a stock kind): states are held as rho, v, tts."""

    _vf_user = True
    _states = {"rho", "v", "tts"}
    _disturbances = {"f"}  # a weather factor weighting the time spent (a link kind that owns a disturbance)

    def init_vars(self, init_conditions=None, engine=None, **kwargs):
        if engine is None:
            engine = get_current_engine()
        ic = dict(init_conditions or {})
        tts = ic.pop("tts", None)
        f = ic.pop("f", None)
        super().init_vars(ic, engine, **kwargs)
        self.states["tts"] = tts if tts is not None else engine.var(f"tts_{self.name}")
        self.disturbances = {"f": f if f is not None else engine.var(f"f_{self.name}")}

    def step_dynamics(self, net, *args, T=None, **kwargs):
        nxt = super().step_dynamics(net, *args, T=T, **kwargs)
        rho = self.states["rho"]
        tot = rho[0]
        for i in range(1, self.N):
            tot = tot + rho[i]
        nxt["tts"] = self.states["tts"] + T * self.L * self.lam * tot * self.disturbances["f"]
        return nxt


class Motorway(M.Network):
    """A user-defined network class (e.g. one that builds a standard stretch in its constructor)."""

    _vf_user = True

    def __init__(self, name=None, operator="-"):
        super().__init__(name)
        self.operator = operator

    # a lookup of its own, kept fresh with the library's own decorator on an overridden construction call that forwards
    # to the parent (whose own lookups must be refreshed by the parent's decorator all the same)
    @cached_property
    def ramps(self):
        return [o for o in self.origins if isinstance(o, M.MeteredOnRamp)]

    # ... and one built from a helper function (`cached_property(func)`, no decorator syntax): its attribute name is only
    # known once the class body has been executed
    ramp_nodes = cached_property(lambda self: {o_: n_ for o_, n_ in self.origins.items() if isinstance(o_, M.MeteredOnRamp)})

    @invalidate_cache(ramps, ramp_nodes)
    def add_origin(self, origin, node):
        return super().add_origin(origin, node)

    # ... and a memoised lookup METHOD (functools.lru_cache: the decorator documents both kinds), dropped together with the
    # cached property by one decorator on the overridden link calls
    @lru_cache(maxsize=256)
    def downstream(self, node):
        return frozenset(id(w_) for w_ in self.G.successors(node)) if node in self.G else frozenset()

    @lru_cache(maxsize=256)
    def link_between(self, node_up, node_down):
        G_ = self.G
        return id(G_.edges[node_up, node_down]["link"]) if G_.has_edge(node_up, node_down) else None

    @invalidate_cache(ramps, downstream, link_between)
    def add_link(self, node_up, link, node_down):
        return super().add_link(node_up, link, node_down)

    @invalidate_cache(ramps, downstream, link_between)
    def add_links(self, links):
        return super().add_links(links)


class TollPlaza(M.MainstreamOrigin):
    """A mainstream origin whose inflow is additionally capped (toll plaza / tunnel entrance): overrides the
    public get_flow of a concrete origin kind."""

    _vf_user = True

    def __init__(self, name=None, cap=None):
        super().__init__(name)
        self.cap = cap

    def get_flow(self, net, T, engine=None, **kwargs):
        q = super().get_flow(net, T, engine, **kwargs)
        if self.cap is None:
            return q
        if engine is None:
            engine = get_current_engine()
        return -engine.max(-q, -self.cap)


class GatedOrigin(M.Origin):
    """A state-less origin whose inflow is directly the decision variable `q` (an action, no queue)."""

    _vf_user = True
    _actions = {"q"}

    def init_vars(self, init_conditions=None, engine=None, **_):
        if engine is None:
            engine = get_current_engine()
        ic = init_conditions or {}
        self.actions = {"q": ic["q"] if "q" in ic else engine.var(f"q_{self.name}")}

    def get_flow(self, net, engine=None, **_):
        return self.actions["q"]


class QueueLink(M.Link):
    """A link with an embedded on-ramp queue `w` (a link kind that owns a quantity of the origin family and
    honours the option that speaks about it, exactly as the stock ramps do in their `init_vars`)."""

    _vf_user = True
    _states = {"rho", "v", "w"}

    def init_vars(self, init_conditions=None, engine=None, positive_init_queue=False, **kwargs):
        if engine is None:
            engine = get_current_engine()
        ic = dict(init_conditions or {})
        w = ic.pop("w", None)
        super().init_vars(ic, engine, **kwargs)
        w = w if w is not None else engine.var(f"w_{self.name}")
        self.states["w"] = engine.max(0, w) if positive_init_queue else w

    def step_dynamics(self, net, *args, T=None, **kwargs):
        nxt = super().step_dynamics(net, *args, T=T, **kwargs)
        nxt["w"] = self.states["w"] + T * (500.0 - 0.1 * self.states["rho"][0] * self.states["v"][0] * self.lam)
        return nxt


class VirtualRamp(M.Origin):
    """A user ramp kind that does not inherit the metered ramp's constructor / states but is declared one
    with the standard ABC mechanism (`MeteredOnRamp.register`)."""

    _vf_user = True


M.MeteredOnRamp.register(VirtualRamp)


class Junction(M.Node):
    """A node that keeps the detectors installed at it; one without detectors is falsy (`len() == 0`)."""

    _vf_user = True

    def __init__(self, name=None, detectors=()):
        super().__init__(name)
        self.detectors = list(detectors)

    def __len__(self):
        return len(self.detectors)


class AdaptiveLink(M.Link):
    """Route choice that reacts to the traffic state: the turn rate is a property computed from the link's
    current first-segment density (with a setter for the base rate)."""

    _vf_user = True

    @property
    def turnrate(self):
        st = getattr(self, "states", None)
        if st is None or "rho" not in st:
            return self._base_rate
        return self._base_rate * (1.0 + 0.02 * st["rho"][0])

    @turnrate.setter
    def turnrate(self, value):
        self._base_rate = value


class CappedOnRamp(M.MeteredOnRamp):
    """A metered ramp whose flow is additionally capped by a model parameter `q_max` that travels with the other
    model parameters of the step (keyword with a default)."""

    _vf_user = True

    def get_flow(self, net, T, engine=None, q_max=None, **kwargs):
        q = super().get_flow(net, T, engine, **kwargs)
        if q_max is None:
            return q
        if engine is None:
            engine = get_current_engine()
        return -engine.max(-q, -q_max)


class MeasuredSpeedOrigin(M.MainstreamOrigin):
    """A mainstream origin whose upstream speed is a measurement: a DISTURBANCE called `v` (the name the links use for
    their speed STATE) held after the demand `d`; its queue `w` and limit `v_ctrl` are the stock ones."""

    _vf_user = True
    _disturbances = {"d", "v"}

    def init_vars(self, init_conditions=None, engine=None, **kwargs):
        if engine is None:
            engine = get_current_engine()
        ic = dict(init_conditions or {})
        v = ic.pop("v", None)
        super().init_vars(ic, engine, **kwargs)
        self.disturbances["v"] = v if v is not None else engine.var(f"v_{self.name}")

    def get_speed(self, net, **kwargs):
        return self.disturbances["v"]


# Stock kinds whose objects happen to be falsy (a `__len__` counting something that is zero, a `__bool__` telling
# something of the user's own): nothing the library may rely on when it asks "was an element given / found".
class QuietLink(M.Link):
    def __bool__(self):
        return False


class CountingVslLink(M.LinkWithVsl):
    def __len__(self):  # "incidents reported on this link"
        return 0


class QuietDestination(M.Destination):
    def __bool__(self):
        return False


class CountingCongestedDestination(M.CongestedDestination):
    def __len__(self):
        return 0


class QuietMainstream(M.MainstreamOrigin):
    def __bool__(self):
        return False


class CountingOrigin(M.Origin):
    def __len__(self):
        return 0


class OffRampNode(M.Node):
    """A user-defined NODE kind with its own node rules (the public hooks `get_upstream_speed_and_flow` and
    `get_downstream_density`): an unmodelled exit at the node takes the share `beta_off` of the flow every leaving link would
    receive; a detector further ahead (reading `rho_block`) is averaged into the density the entering links are told lies ahead."""

    _vf_user = True

    def __init__(self, name=None, beta_off=0.2, rho_block=None):
        super().__init__(name)
        self.beta_off = beta_off
        self.rho_block = rho_block

    def get_upstream_speed_and_flow(self, net, link, engine=None, **kwargs):
        v, q = super().get_upstream_speed_and_flow(net, link, engine=engine, **kwargs)
        return v, (1.0 - self.beta_off) * q

    def get_downstream_density(self, net, engine=None, **kwargs):
        if engine is None:
            engine = get_current_engine()
        r = super().get_downstream_density(net, engine=engine, **kwargs)
        return r if self.rho_block is None else 0.5 * (r + self.rho_block)


class NamedRamp(M.MeteredOnRamp):
    """An element kind with VALUE equality: "elements are identified by their name" (what-if studies attach a fresh ramp object
    of the same name per candidate capacity)."""

    _vf_user = True

    def __eq__(self, other):
        return type(other) is type(self) and other.name == self.name

    def __hash__(self):
        return hash((type(self).__name__, self.name))


class NamedDestination(M.Destination):
    _vf_user = True

    def __eq__(self, other):
        return type(other) is type(self) and other.name == self.name

    def __hash__(self):
        return hash((type(self).__name__, self.name))


class NominalLink(M.Link):
    """A link kind that starts from its own nominal state where the caller gives none: it completes the mapping it is handed
    (its own business) before the stock initialisation."""

    _vf_user = True

    def __init__(self, *args, nominal_rho=None, nominal_v=None, **kwargs):
        super().__init__(*args, **kwargs)
        self.nominal_rho = nominal_rho
        self.nominal_v = nominal_v

    def init_vars(self, init_conditions=None, engine=None, **kwargs):
        ic = init_conditions if init_conditions is not None else {}
        ic.setdefault("rho", self.nominal_rho)
        ic.setdefault("v", self.nominal_v)
        super().init_vars(ic, engine, **kwargs)


class GatedDestination(M.Destination):
    """A destination kind that owns a control ACTION: the density its operator imposes downstream (`rho_gate`)."""

    _vf_user = True
    _actions = {"rho_gate"}

    def init_vars(self, init_conditions=None, engine=None, **_):
        if engine is None:
            engine = get_current_engine()
        ic = init_conditions or {}
        self.actions = {"rho_gate": ic["rho_gate"] if "rho_gate" in ic else engine.var(f"rho_gate_{self.name}")}

    def get_density(self, net, engine=None, **_):
        if engine is None:
            engine = get_current_engine()
        link_up = self._get_entering_link(net)
        return engine.destinations.get_congested_downstream_density(link_up.states["rho"][-1], self.actions["rho_gate"], link_up.rho_crit)


class BoundaryCell(M.MainstreamOrigin):
    """A mainstream origin modelled as a virtual upstream cell: besides its queue it owns an entry SPEED state `v_in` (the
    upstream speed the first link sees), clamped when positive initial speeds are requested - an origin kind that owns a
    quantity of the link family and honours the option that speaks about it."""

    _vf_user = True
    _states = {"w", "v_in"}

    def init_vars(self, init_conditions=None, engine=None, positive_init_speed=False, **kwargs):
        if engine is None:
            engine = get_current_engine()
        ic = dict(init_conditions or {})
        v_in = ic.pop("v_in", None)
        super().init_vars(ic, engine, **kwargs)
        v_in = v_in if v_in is not None else engine.var(f"v_in_{self.name}")
        self.states["v_in"] = engine.max(0, v_in) if positive_init_speed else v_in

    def get_speed(self, net, **kwargs):
        return self.states["v_in"]

    def step_dynamics(self, net, *args, **kwargs):
        nxt = super().step_dynamics(net, *args, **kwargs)
        nxt["v_in"] = 0.5 * (self.states["v_in"] + 80.0)
        return nxt


class _IndexHashed:
    """Mixin: hashed by a per-family index (so that sets iterate in a reproducible order), equality stays identity."""

    def __hash__(self):
        return hash(getattr(self, "idx", 0))


class IdxLink(_IndexHashed, M.Link):
    _vf_user = True


class IdxOrigin(_IndexHashed, M.MainstreamOrigin):
    _vf_user = True


class IdxDestination(_IndexHashed, M.Destination):
    _vf_user = True


class IdxNode(_IndexHashed, M.Node):
    _vf_user = True


class OptionalDemandOrigin(M.Origin):
    """A state-less origin whose variable groups are declared PER INSTANCE (`self._disturbances = {"d"}` in the constructor when
    the optional demand cap is asked for; the class-level sets stay empty)."""

    _vf_user = True

    def __init__(self, name=None, capped=True):
        super().__init__(name)
        if capped:
            self._disturbances = {"d"}

    def init_vars(self, init_conditions=None, engine=None, **_):
        if engine is None:
            engine = get_current_engine()
        if self._disturbances:
            ic = init_conditions or {}
            self.disturbances = {"d": ic["d"] if "d" in ic else engine.var(f"d_{self.name}")}

    def get_flow(self, net, engine=None, **kwargs):
        q = super().get_flow(net, engine=engine, **kwargs)
        if not self._disturbances:
            return q
        if engine is None:
            engine = get_current_engine()
        return -engine.max(-q, -self.disturbances["d"])  # min(q, d)


class QueuesFirstNetwork(M.Network):
    """A Network subclass that lists its elements in another order (the origins with their queues first, then the links, then
    the destinations) by overriding the public `elements` property."""

    _vf_user = True

    @property
    def elements(self):
        from itertools import chain

        return chain(self.origins, (l_ for _u, _w, l_ in self.links), self.destinations)
