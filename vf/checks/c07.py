"""C07 — every network accepted by validation can be stepped and compiled on every
engine; next states keep the shape of their states; finite admissible inputs give
finite outputs (the model's own 0/0 excluded).

Events: exceptions, shapes and finiteness observed at the client boundary of
``Network.is_valid``, ``Network.step`` and ``Engine.to_function``.
"""
import math
import random

import casadi as cs
import numpy as np

from vf import compiled as C, desc as D, drive, gen as G, monitors, oracle as O, refmodel as R, workloads as W

PROP = "C07"
WATCHDOG_S = 3000
OPTS = ("positive_init_speed", "positive_init_density", "positive_init_queue",
        "positive_next_speed", "positive_next_density", "positive_next_queue")


def _exc(rec, phase, engine, exc, case):
    where = monitors.innermost_repo_frame(exc)
    rec.violation(f"{PROP}:{phase} raised {type(exc).__name__} at {where} ({engine})",
                  {"exception": repr(exc)[:400], "phase": phase, "engine": engine, "case": case})


def _shape_of(x):
    if hasattr(x, "shape"):
        s = x.shape
        return tuple(s) if not callable(s) else tuple(s())
    return ()


def _check_shapes(rec, built, engine, case):
    for eid, el in built.elements.items():
        if el.states is None:
            continue
        for name, s in el.states.items():
            rec.count("shape_checks")
            ns = (el.next_states or {}).get(name)
            if ns is None:
                rec.violation(f"{PROP}:no next state produced for a state ({engine})",
                              {"element": eid, "state": name, "case": case})
                continue
            a, b = _shape_of(s), _shape_of(ns)
            if a != b:
                rec.violation(f"{PROP}:next state shape {len(b)}-d differs from state shape {len(a)}-d ({engine})",
                              {"element": eid, "state": name, "state_shape": a, "next_shape": b, "case": case})


def one_network(M, rec, rng, g, desc, built, tier):
    NE, CE = drive.engines(M)
    case0 = {"desc": desc}
    # 0. validation must accept it (the generator only builds valid networks)
    try:
        ok, msgs = built.net.is_valid(raises=False)
    except Exception as e:
        _exc(rec, "is_valid", "-", e, case0)
        return
    if not ok:
        rec.count("generated_network_rejected_by_validation")
        rec.seen("rejected_msgs", str(msgs)[:200])
        return
    rec.count("valid_networks")
    rec.seen("net_signatures", D.signature(desc))
    lay = D.var_layout(desc)
    kinds = set(o["kind"] for o in desc["origins"]) | set("dest-" + d["kind"] for d in desc["dests"])
    for kd in kinds:
        rec.seen("element_kinds", kd)
    pars = g.pars()
    kw = drive.step_pars(pars)

    # 1. NumPy engine with its own variables
    for vt in ("rand", "empty", "randn", np.float64(rng.uniform(1.0, 30.0))):
        label = "numpy-own:" + (vt if isinstance(vt, str) else "value")
        case = dict(case0, pars=pars, engine=label)
        try:
            built.net.step(engine=NE(var_type=vt), **kw)
        except Exception as e:
            _exc(rec, "step", label, e, case)
            continue
        rec.count("steps_ok")
        rec.seen("engine_modes", label)
        _check_shapes(rec, built, label, case)
        if vt == "rand" or not isinstance(vt, str):
            nxt = drive.read_next(built)
            vals = _read_vals(built, lay)
            if not R.is_singular(desc, vals):
                bad = _nonfinite(nxt)
                rec.count("finite_checks")
                if bad:
                    rec.violation(f"{PROP}:non-finite output for finite admissible inputs ({label}) at {_where(desc, bad[0])}",
                                  dict(case, vals=vals, nonfinite=bad[:5]))
    # 2. NumPy engine with user arrays, boundary regimes
    for reg in ("zero", "jam", "boundary", "mixed"):
        regime, vals = g.values(desc, reg)
        shape_mode = rng.choice(("vec1", "0d", "float"))
        as_int = rng.random() < 0.2
        if as_int:
            vals = drive.integerise(vals)
        label = "numpy-user"
        opts = {o: True for o in OPTS if rng.random() < 0.2}
        case = dict(case0, pars=pars, vals=vals, opts=opts, engine=label, scalar_shape=shape_mode, regime=regime)
        # the caller's floating-point error mode: ignore (this harness' default), NumPy's default (warn) with
        # warnings turned into errors, or raise - away from the model's own 0/0 no signal is ever emitted
        fpmode = rng.choice(("ignore", "ignore", "raise", "warnings-as-errors")) if not R.is_singular(desc, vals) else "ignore"
        if any(isinstance(x, float) and math.isinf(x) for d_ in vals.values() for v_ in d_.values() for x in (v_ if isinstance(v_, list) else [v_])):
            fpmode = "ignore"
        try:
            import warnings

            with np.errstate(all={"ignore": "ignore", "raise": "raise", "warnings-as-errors": "warn"}[fpmode]), warnings.catch_warnings():
                if fpmode == "warnings-as-errors":
                    warnings.simplefilter("error")
                built.net.step(init_conditions=drive.np_init(built, vals, shape_mode, int_dtype=as_int), engine=NE(), **opts, **kw)
            rec.seen("floating_point_error_modes", fpmode)
        except Exception as e:
            if fpmode != "ignore":
                label = label + f" [caller's floating-point error mode: {fpmode}]"
            _exc(rec, "step", label, e, case)
            continue
        rec.count("steps_ok")
        rec.seen("engine_modes", label + ":" + shape_mode)
        if as_int:
            rec.seen("engine_modes", label + ":int-dtype")
        rec.seen("regimes", regime)
        _check_shapes(rec, built, label, case)
        try:
            nxt = drive.read_next(built)
        except Exception as e:
            rec.violation(f"{PROP}:next state cannot be read as numbers ({label})", dict(case, exception=repr(e)[:200]))
            continue
        if R.is_singular(desc, vals):
            rec.count("skipped_singular")
        else:
            rec.count("finite_checks")
            bad = _nonfinite(nxt)
            if bad:
                rec.violation(f"{PROP}:non-finite output for finite admissible inputs ({label}) at {_where(desc, bad[0])}",
                              dict(case, nonfinite=bad[:5]))
    # 3. CasADi engine, both symbol types, engine's own symbols; compile at all levels
    # 2b. compile with declared symbolic parameters (incl. a symbolic sampling time with flow outputs)
    from vf import compilecases as CC

    for st in ("SX", "MX"):
        cand = CC.candidate_params(desc, pars, geometry=True)  # also lanes (where no lane-drop term is asked for) and lengths
        keys = [("#", "T")] + rng.sample(cand, rng.randint(0, min(3, len(cand))))
        keys = list(dict.fromkeys(keys))
        case_p = dict(case0, pars=pars, engine=st, symbolic_parameters=[list(k_) for k_ in keys])
        try:
            # own symbols of the engine, or symbols supplied by the user with some controls / disturbances
            # given as plain numbers (then constants of the function)
            own = rng.random() < 0.5
            fx = None
            if not own:
                _r, fx = g.values(desc, allow_inf=False)
            cc = CC.CompileCase(M, rng, desc, pars, st, keys, {}, own_symbols=own, fixed_from=fx, fixed_prob=0.6, scaled_prob=0.3)
            if cc.fixed:
                rec.count("symbolic_cases_with_variables_supplied_as_numbers")
            if cc.scaled:
                rec.count("symbolic_cases_with_inputs_given_as_expressions_of_user_symbols")
        except Exception as e:
            _exc(rec, "step with symbolic parameters", st, e, case_p)
            continue
        for compact in (0, 1, 2):
            mo = rng.random() < 0.7
            try:
                F = cc.compile(compact, mo)
                rec.count("compilations_ok")
                rec.seen("compile_modes", (st, compact, mo, "symbolic-parameters"))
                if F.get_free():
                    rec.violation(f"{PROP}:compiled function with declared parameters has free symbols ({st})", case_p)
            except Exception as e:
                _exc(rec, f"to_function(compact={compact},more_out={mo},symbolic parameters)", st, e, case_p)
    # (every third network: ONE engine object, switched to the other symbol type through its public `sym_type`
    # attribute - the way the NumPy engine is re-configured through `var_type`)
    one_object = rng.random() < 0.34
    sts = ("SX", "MX") if rng.random() < 0.5 else ("MX", "SX")
    shared_eng = None
    for st in sts:
        if one_object and shared_eng is not None:
            eng = shared_eng
            eng.sym_type = getattr(cs, st)
            rec.count("casadi_engines_switched_to_the_other_symbol_type")
        else:
            eng = shared_eng = CE(st)
        opts = {o: True for o in OPTS if rng.random() < 0.25}
        case = dict(case0, pars=pars, opts=opts, engine=st)
        try:
            built.net.step(engine=eng, **opts, **kw)
        except Exception as e:
            _exc(rec, "step", st, e, case)
            continue
        rec.count("steps_ok")
        rec.seen("engine_modes", st)
        wrong = [f"{nm}_{el.name}" for el in built.elements.values() for grp in (el.states, el.actions, el.disturbances) if grp
                 for nm, x in grp.items() if not isinstance(x, getattr(cs, st))]
        if wrong:
            rec.violation(f"{PROP}:stepping with a CasADi engine whose symbol type is {st} created variables of another type"
                          + (" (engine object switched through sym_type)" if eng is shared_eng and one_object and st == sts[1] else ""),
                          dict(case, variables=wrong[:5]))
            continue
        _check_shapes(rec, built, st, case)
        order = C.live_order(built)
        for compact in (0, 1, 2):
            for more_out in (False, True):
                ccase = dict(case, compact=compact, more_out=more_out)
                try:
                    F = eng.to_function(built.net, compact=compact, more_out=more_out, **kw)
                except Exception as e:
                    _exc(rec, f"to_function(compact={compact},more_out={more_out})", st, e, ccase)
                    continue
                rec.count("compilations_ok")
                rec.seen("compile_modes", (st, compact, more_out, tuple(sorted(opts))))
                if F.get_free():
                    rec.violation(f"{PROP}:compiled function has free symbols ({st})", ccase)
                # evaluate at boundary points: outputs finite, sizes as the states
                for reg in (("zero", "boundary") if tier == "quick" else ("zero", "jam", "boundary", "mixed")):
                    regime, vals = g.values(desc, reg)
                    if R.is_singular(desc, vals):
                        rec.count("skipped_singular")
                        continue
                    try:
                        xn, q, qo = C.call_positional(F, desc, order, vals, compact, more_out)
                    except Exception as e:
                        rec.violation(f"{PROP}:compiled function cannot be called with the documented layout ({st},compact={min(compact,2)}): {type(e).__name__}",
                                      dict(ccase, vals=vals, exception=repr(e)[:300]))
                        break
                    rec.count("finite_checks")
                    bad = _nonfinite(xn)
                    for eid, L in lay.items():
                        for name, n in L["states"]:
                            if len(xn.get(eid, {}).get(name, [])) != n:
                                rec.violation(f"{PROP}:compiled result size differs from state size ({st})", dict(ccase, element=eid))
                    if more_out:
                        for lid, v in (q or {}).items():
                            bad += [(lid, "q", i, x) for i, x in enumerate(v) if not math.isfinite(x)]
                        for oid, x in (qo or {}).items():
                            if not math.isfinite(x) and not _unlimited_inf(desc, vals, oid):
                                bad.append((oid, "q_o", 0, x))
                    if bad:
                        rec.violation(f"{PROP}:non-finite output of compiled function for finite admissible inputs ({st}) at {_where(desc, bad[0])}",
                                      dict(ccase, vals=vals, nonfinite=bad[:5]))


def _unlimited_inf(desc, vals, oid):
    o = next(t for t in desc["origins"] if t["id"] == oid)
    return o["kind"] == "simple" and o["eq"] == "unlimited" and math.isinf(vals[oid]["q"])


def _where(desc, b):
    eid, name = b[0], b[1]
    for o in desc["origins"]:
        if o["id"] == eid:
            return f"origin({o['kind']},{o['eq']}).{name}"
    return f"link.{name}"


def _nonfinite(nxt):
    bad = []
    for eid, d in nxt.items():
        for name, v in d.items():
            for i, x in enumerate(v if isinstance(v, list) else [v]):
                if not math.isfinite(x):
                    bad.append((eid, name, i, x))
    return bad


def _read_vals(built, lay):
    vals = {}
    linkids = set(built.links)
    for eid, L in lay.items():
        el = built.el(eid)
        d = {}
        for grp in ("states", "actions", "disturbances"):
            for name, n in L[grp]:
                a = np.asarray(getattr(el, grp)[name], dtype=float).ravel()
                d[name] = [float(t) for t in a] if eid in linkids else float(a[0])
        if d:
            vals[eid] = d
    return vals


def unrestricted_ramps(M, rec, rng, g, reps):
    """On-ramps whose capacity is infinite ("the ramp itself never limits the flow" - `MeteredOnRamp(float("inf"))`), stepped
    from finite states below the maximum density with the ramp open: every output is finite, on both engines."""
    import copy

    NE, CE = drive.engines(M)
    for it in range(reps):
        desc = copy.deepcopy(g.network(("ramp", "merge", "ramp", "random")[it % 4])[1])
        ramps = [o for o in desc["origins"] if o["kind"] in ("ramp", "simple") and not (o["kind"] == "simple" and o["eq"] == "unlimited")]
        if not ramps:
            continue
        for o in ramps:
            o["C"] = math.inf
        ins, outs, org, dst = R.topology(desc)
        pars = g.pars()
        kw = drive.step_pars(pars)
        _, vals = g.values(desc, "interior", allow_inf=False)
        for o in ramps:
            lk = outs[o["node"]][0]
            vals[lk["id"]]["rho"][0] = min(vals[lk["id"]]["rho"][0], 0.9 * lk["rho_max"])
            if "r" in vals[o["id"]]:
                vals[o["id"]]["r"] = rng.uniform(0.2, 1.0)
            if "q" in vals[o["id"]]:
                vals[o["id"]]["q"] = rng.uniform(200.0, 3000.0)
            vals[o["id"]]["d"] = rng.uniform(300.0, 4000.0)  # (a finite demand: with nothing limiting the ramp, what it admits is demand + queue / T)
            vals[o["id"]]["w"] = rng.uniform(0.0, 40.0)
        if R.is_singular(desc, vals):
            continue
        case = {"desc": desc, "pars": pars, "vals": vals}
        built = D.build(M, desc)
        rec.count("networks_with_ramps_of_infinite_capacity")
        try:
            built.net.step(init_conditions=drive.np_init(built, vals, "vec1"), engine=NE(), **kw)
            bad = _nonfinite(drive.read_next(built))
        except Exception as e:
            _exc(rec, "step", "numpy-user [infinite ramp capacity]", e, case)
            continue
        rec.count("finite_checks")
        if bad:
            rec.violation(f"{PROP}:non-finite output for finite admissible inputs (numpy-user, a ramp of infinite capacity) at {_where(desc, bad[0])}",
                          dict(case, nonfinite=bad[:5]))
        st = ("SX", "MX")[it % 2]
        try:
            eng = CE(st)
            built.net.step(engine=eng, **kw)
            compact = rng.choice((0, 1, 2))
            F = eng.to_function(built.net, compact=compact, more_out=True, **kw)
            xn, q, qo = C.call_positional(F, desc, C.live_order(built), vals, compact, True)
        except Exception as e:
            _exc(rec, "step / to_function", st + " [infinite ramp capacity]", e, case)
            continue
        rec.count("finite_checks")
        bad = _nonfinite(xn) + [(oid, "q_o", 0, x) for oid, x in (qo or {}).items() if not math.isfinite(x)]
        if bad:
            rec.violation(f"{PROP}:non-finite output of compiled function for finite admissible inputs ({st}, a ramp of infinite capacity) at {_where(desc, bad[0])}",
                          dict(case, nonfinite=bad[:5]))


def almost_empty_roads(M, rec, rng, g, reps):
    """A merge whose entering links are almost - not exactly - empty (a closed-loop run through a zero-demand night ends up at
    subnormal densities, 5e-324 ... 1e-310, never at an exact zero): the total inflow is positive, no 0/0 is involved, every
    output is finite (NumPy engine)."""
    import copy

    NE, CE = drive.engines(M)
    for it in range(reps):
        desc = copy.deepcopy(g.network(("merge", "crossing", "merge", "random")[it % 4])[1])
        ins, outs, org, dst = R.topology(desc)
        merges = [n_ for n_ in desc["nodes"] if len(ins[n_]) >= 2 and outs[n_]]
        if not merges:
            continue
        pars = g.pars()
        kw = drive.step_pars(pars)
        _, vals = g.values(desc, "interior", allow_inf=False)
        tiny = rng.choice((5e-324, 1e-320, 3e-312, 2e-309))
        for n_ in merges:
            for l_ in ins[n_]:
                vals[l_["id"]]["rho"] = [tiny * rng.choice((1, 2, 3)) for _ in vals[l_["id"]]["rho"]]
        if R.is_singular(desc, vals):
            continue
        case = {"desc": desc, "pars": pars, "vals": vals}
        built = D.build(M, desc)
        rec.count("networks_with_almost_empty_links_entering_a_merge")
        try:
            built.net.step(init_conditions=drive.np_init(built, vals, "vec1"), engine=NE(), **kw)
            bad = _nonfinite(drive.read_next(built))
        except Exception as e:
            _exc(rec, "step", "numpy-user [subnormal densities]", e, case)
            continue
        rec.count("finite_checks")
        if bad:
            rec.violation(f"{PROP}:non-finite output for finite admissible inputs (numpy-user, almost empty links entering a merge) at {_where(desc, bad[0])}",
                          dict(case, nonfinite=bad[:5]))


def compile_without_a_sampling_time(M, rec, rng, reps):
    """A stepped network whose origins are all ideal (no queue, nothing that needs T) compiled WITH flow outputs and without
    handing `T` to `to_function` again (the stepped expressions carry it): compiling succeeds at every level."""
    NE, CE = drive.engines(M)
    for it in range(reps):
        st = ("SX", "MX")[it % 2]
        N_ = rng.choice((1, 2, 3))
        net = M.Network().add_path((M.Node(), M.Link(N_, 2, 1.0, 180.0, 33.5, 102.0, 1.867), M.Node(), M.Link(2, 2, 1.0, 180.0, 33.5, 102.0, 1.867), M.Node()),
                                   origin=M.Origin(), destination=M.Destination())
        eng = CE(st)
        try:
            net.step(engine=eng, T=10 / 3600, tau=18 / 3600, eta=60.0, kappa=40.0)
        except Exception as e:
            _exc(rec, "step", st, e, {"network": "ideal origin, two links"})
            continue
        for compact in (0, 1, 2):
            rec.count("compilations_without_a_sampling_time")
            try:
                F = eng.to_function(net, compact=compact, more_out=True)
                rec.count("compilations_ok")
                if F.get_free():
                    rec.violation(f"{PROP}:compiled function has free symbols ({st})", {"compact": compact})
            except Exception as e:
                _exc(rec, f"to_function(compact={compact},more_out=True) without T on a network of ideal origins", st, e, {"compact": compact})


def run(M, rec, tier, seed, k, n):
    W.USER_KINDS["prob"] = 0.12  # user-defined origin / link kinds (README "Extensions")
    np.seterr(all="ignore")
    rng = random.Random(seed * 1000 + k + 700)
    g = G.NetGen(rng)
    # exhaustive small valid networks (sharded by index)
    nmax = 2 if tier == "quick" else 3
    for i, desc in enumerate(G.all_valid_small(nmax, random.Random(seed))):
        if i % n != k:
            continue
        built = D.build(M, desc, D.random_ops(desc, rng) if rng.random() < 0.5 else None)
        rec.count("exhaustive_small_networks")
        one_network(M, rec, rng, g, desc, built, tier)
    rec.extra["exhaustive_small_nmax"] = nmax
    sh = W.shapes_cycle()
    import os

    child = os.environ.get("VF_OPTIMISED_CHILD") == "1"
    for it in range((70 if tier == "quick" else 500) if not child else 16):
        shp, desc, built = W.make_net(M, g, next(sh), rng)
        rec.seen("shapes", shp)
        if shp == "allkinds":
            rec.count("allkinds_seen")
        if shp == "allkinds" and rec.counters.get("allkinds_seen", 0) % 2 == 1:
            desc, ncl = G.clash_names(desc, rng)
            built = D.build(M, desc, D.random_ops(desc, rng))
            rec.count("networks_with_clashing_names", 1 if ncl else 0)
        one_network(M, rec, rng, g, desc, built, tier)
        if it % 3 == 1:
            # the same origin/destination OBJECTS live on in a second valid network with other links, and
            # an element of the first network is replaced through the API: both must step and compile
            desc2 = G.redraw_link_params(built.desc, rng)
            reuse = dict(built.origins)
            reuse.update(built.dests)
            built2 = D.build(M, desc2, D.random_ops(desc2, rng), reuse=reuse)
            rec.count("networks_reusing_element_objects")
            one_network(M, rec, rng, g, desc2, built2, tier)
            desc3, what = W.replace_elements_inplace(M, built2, built2.desc, rng)
            if what:
                rec.count("networks_after_element_replacement")
                one_network(M, rec, rng, g, desc3, built2, tier)
    if rec.counters.get("valid_networks", 0) <= 3:
        pass
    rec.sample({"example_network": desc})
    if not child:
        unrestricted_ramps(M, rec, rng, g, 24 if tier == "quick" else 200)
        almost_empty_roads(M, rec, rng, g, 24 if tier == "quick" else 200)
        compile_without_a_sampling_time(M, rec, rng, 8 if tier == "quick" else 40)


    if k == 0 and not child:
        optimised_interpreter(rec, seed)
        numpy_only_installation(rec, seed)


def numpy_only_installation(rec, seed):
    """A NumPy-only installation (CasADi is an optional dependency): a child process in which `import casadi`
    fails builds, validates and steps networks with the NumPy engine."""
    import json
    import os
    import subprocess
    import sys

    from vf.env import SMN_SRC, VERIF_DIR

    try:
        p = subprocess.run([sys.executable, os.path.join(VERIF_DIR, "vf", "numpy_only_child.py"), str(seed)], cwd=VERIF_DIR,
                           env=dict(os.environ, SMN_SRC=SMN_SRC, PYTHONHASHSEED="0"), capture_output=True, text=True, timeout=600)
        res = json.loads(p.stdout.strip().splitlines()[-1])
    except Exception as e:
        rec.count("numpy_only_run_failed")
        rec.seen("numpy_only_run_failed", repr(e)[:150])
        return
    rec.count("numpy_only_installation_steps_ok", res.get("steps_ok", 0))
    rec.count("numpy_only_installation_runs")
    seen = set()
    for v in res.get("violations", []):
        mech = f"{PROP}:{v['what']} [NumPy-only installation: `import casadi` fails]"
        if mech not in seen:
            seen.add(mech)
        rec.violation(mech, v)


def optimised_interpreter(rec, seed):
    """The same kind of workload in an interpreter started with -O (assert statements are not compiled):
    a configuration of the caller, like the floating-point error mode."""
    import json
    import os
    import subprocess
    import sys
    import tempfile

    from vf.env import VERIF_DIR

    fd, out = tempfile.mkstemp(prefix="vf_c07_O_", suffix=".json")
    os.close(fd)
    env = dict(os.environ, VF_OPTIMISED_CHILD="1", PYTHONHASHSEED="0")
    try:
        p = subprocess.run([sys.executable, "-O", os.path.join(VERIF_DIR, "check"), PROP, "--tier", "quick", "--seed", str(seed),
                            "--shard", "0/12", "--state-out", out], cwd=VERIF_DIR, env=env, stdout=subprocess.DEVNULL,
                           stderr=subprocess.DEVNULL, timeout=900)
        with open(out) as f:
            st = json.load(f)
    except Exception as e:
        rec.count("optimised_interpreter_run_failed")
        rec.seen("optimised_interpreter_run_failed", repr(e)[:150])
        return
    finally:
        try:
            os.unlink(out)
        except OSError:
            pass
    st["counters"] = {"python_O_" + k_: v_ for k_, v_ in st["counters"].items()}
    st["cover"] = {"python_O_" + k_: v_ for k_, v_ in st["cover"].items()}
    st["samples"] = []
    st["violations"] = {m_ + " [interpreter started with -O]": v_ for m_, v_ in st["violations"].items()}
    st["inconclusive"] = []
    st["extra"] = {}
    rec.merge_state(st)
    rec.count("optimised_interpreter_runs")


def finish(M, rec, write=True):
    if not rec.violations:
        em = rec.cover.get("engine_modes", set())
        for need in ("numpy-own:rand", "numpy-own:empty", "numpy-user:vec1", "numpy-user:0d", "numpy-user:float", "SX", "MX"):
            rec.gate(need in em, f"engine mode {need} never stepped successfully")
        rec.gate(rec.counters.get("compilations_ok", 0) > 0, "nothing compiled")
        for kd in ("ideal", "main", "ramp", "simple", "dest-free", "dest-cong"):
            rec.gate(kd in rec.cover.get("element_kinds", set()), f"element kind {kd} never present")
        rec.gate(rec.counters.get("generated_network_rejected_by_validation", 0) == 0,
                 "validation rejected generated networks that satisfy the nine conditions (see C06)")
    rec.extra["exhaustive_subspaces"] = [f"every valid (topology, role) assignment on <= {rec.extra.get('exhaustive_small_nmax')} labelled nodes incl. self-loops"]
    return rec.finish(
        ["steps_ok", "compilations_ok", "finite_checks"],
        ["net_signatures", "compile_modes"],
        rule="every valid (topology, role) assignment on <= nmax labelled nodes incl. self-loops (exhaustive, "
        "nmax in coverage.exhaustive_small_nmax) + random valid networks of all shape classes; each stepped with the "
        "NumPy engine (own variables rand/empty/randn/value; user arrays of shape (N,), (1,), 0-d and floats in "
        "zero/jam/boundary/mixed regimes), SX and MX (own symbols, random positivity options), compiled at "
        "compact 0/1/2 x more_out and evaluated at boundary points; distinct = network signatures + compile modes",
        exhaustive=None,
        assumptions=["finite check applies to non-negative finite inputs outside the model's own 0/0",
                     "an unlimited simplified ramp with infinite desired flow reports an infinite q_o by definition"],
        write=write,
    )
