"""C11 — positivity options are exactly clamps at zero.

Pairs of executions on the same engine: step(options)(x) must equal
clamp_next(plain_step(clamp_init(x))) where the clamps are max(0, .) on exactly the
quantities the options name (speed -> v, density -> rho, queue -> w).  All 64 option
combinations; inputs with ~30 % negative entries; NumPy (bitwise), SX and MX evaluated
through ``to_function`` and through the monitor's own casadi.Function.
"""
import itertools
import math
import random

import numpy as np

from vf import compilecases as CC, desc as D, drive, gen as G, oracle as O, workloads as W

PROP = "C11"
WATCHDOG_S = 3000
QUANT = {"speed": "v", "density": "rho", "queue": "w"}
ALL = [f"positive_{ph}_{q}" for ph in ("init", "next") for q in ("speed", "density", "queue")]


def combos():
    for bits in itertools.product((False, True), repeat=6):
        yield {o: True for o, b in zip(ALL, bits) if b}


def clamp(vals, opts, phase):
    out = {}
    names = {QUANT[q] for q in QUANT if opts.get(f"positive_{phase}_{q}")}
    for eid, d in vals.items():
        e = {}
        for k, v in d.items():
            if k in names:
                e[k] = [max(0.0, x) if not math.isnan(x) else x for x in v] if isinstance(v, list) else (max(0.0, v) if not math.isnan(v) else v)
            else:
                e[k] = list(v) if isinstance(v, list) else v
        out[eid] = e
    return out


def negatives(vals, rng, p=0.3):
    out = {}
    for eid, d in vals.items():
        e = {}
        for k, v in d.items():
            if k in ("rho", "v"):
                e[k] = [(-x if (rng.random() < p and x != 0) else x) for x in v]
            elif k == "w":
                e[k] = -v - 1.0 if rng.random() < p else v
            else:
                e[k] = list(v) if isinstance(v, list) else v
        out[eid] = e
    return out


def compare(rec, tag, desc, opts, A, B, ctx, exact):
    """A: observed with options; B: expected (already clamped). NaN in expectation => skipped."""
    for eid, d in B.items():
        for name, v in d.items():
            vb = v if isinstance(v, list) else [v]
            va = A[eid][name] if isinstance(A[eid][name], list) else [A[eid][name]]
            for i, (x, y) in enumerate(zip(va, vb)):
                if math.isnan(y):
                    rec.count("skipped_nan_expectation")
                    continue
                rec.count("scalars_compared")
                same = (x == y) if exact else (x == y or abs(x - y) <= 1e-12 * (1 + abs(x) + abs(y)))
                if not same:
                    named = [q for q in QUANT if QUANT[q] == name]
                    on = sorted(o for o in opts)
                    rel = "named" if any(f"positive_init_{named[0]}" in opts or f"positive_next_{named[0]}" in opts for _ in (0,)) else "unnamed"
                    rec.violation(
                        f"{PROP}:{tag}: {name}+ differs from clamp_next(plain(clamp_init(x))) [{rel} quantity; options on: {_short(on)}]",
                        dict(ctx, element=eid, var=name, index=i, observed=x, expected=y))
                    return False
    return True


def _short(on):
    return ",".join(o.replace("positive_", "") for o in on) or "none"


def numpy_pairs(M, rec, rng, g, desc, pars, npoints):
    NE, CE = drive.engines(M)
    built = D.build(M, desc, D.random_ops(desc, rng))
    kw = drive.step_pars(pars)
    for _ in range(npoints):
        _, v0 = g.values(desc, allow_inf=False)
        vals = negatives(v0, rng)
        cache = {}
        for opts in combos():
            init_only = {o: True for o in opts if "_init_" in o}
            key = tuple(sorted(init_only))
            if key not in cache:
                x2 = clamp(vals, opts, "init")
                built.net.step(init_conditions=drive.np_init(built, x2, "vec1"), engine=NE(), **kw)
                cache[key] = drive.read_next(built)
            exp = clamp(cache[key], opts, "next")
            shape = rng.choice(("vec1", "0d", "float"))
            try:
                built.net.step(init_conditions=drive.np_init(built, vals, shape), engine=NE(), **opts, **kw)
                got = drive.read_next(built)
            except Exception as e:
                rec.violation(f"{PROP}:numpy: step with options raised {type(e).__name__}", {"desc": desc, "opts": opts, "exception": repr(e)[:300]})
                return
            rec.count("pairs_numpy")
            rec.seen("combos_numpy", _short(sorted(opts)))
            compare(rec, "numpy", desc, opts, got, exp, {"desc": desc, "pars": pars, "vals": vals, "opts": opts, "engine": "numpy"}, exact=True)
        if rec.counters.get("pairs_numpy", 0) <= 64:
            rec.sample({"desc": desc, "vals_with_negative_entries": vals, "combinations": 64})


def stress_case(g, rng):
    """An admissible (non-negative) case whose PLAIN next speeds, densities and queues are partly
    negative: slow traffic running into a jam (negative v+), short fast sparse segments with a long
    sampling time (negative rho+), an unlimited simplified ramp releasing more than it holds
    (negative w+)."""
    import copy

    for _try in range(50):
        _, desc = g.network(rng.choice(("chain", "ramp", "merge", "bifurcation", "random")))
        if desc["origins"]:
            break
    desc = copy.deepcopy(desc)
    for l in desc["links"]:
        l["L"] = round(rng.uniform(0.3, 0.45), 3)
    for o in desc["origins"]:
        if o["kind"] == "simple" and rng.random() < 0.7:
            o["eq"] = "unlimited"
    if not any(o["kind"] == "simple" and o["eq"] == "unlimited" for o in desc["origins"]):
        o = desc["origins"][0]  # every valid network has at least one origin or is a pure ring
        o.update(kind="simple", eq="unlimited", C=2500.0)
    pars = g.pars()
    pars["T"] = 15.0 / 3600.0
    _, vals = g.values(desc, "interior", allow_inf=False)
    for l in desc["links"]:
        e = vals[l["id"]]
        for i in range(l["N"]):
            m = rng.random()
            if m < 0.35:      # slow vehicle just upstream of a jam
                e["rho"][i], e["v"][i] = rng.uniform(15, 30), rng.uniform(2, 8)
                if i + 1 < l["N"]:
                    e["rho"][i + 1], e["v"][i + 1] = rng.uniform(150, 175), rng.uniform(1, 4)
            elif m < 0.7:     # sparse and fast: more leaves than is there
                e["rho"][i], e["v"][i] = rng.uniform(0.5, 4), rng.uniform(110, 130)
    for o in desc["origins"]:
        if o["kind"] == "simple" and o["eq"] == "unlimited":
            vals[o["id"]].update(q=rng.uniform(3000, 6000), d=rng.uniform(0, 300), w=rng.choice((0.0, rng.uniform(0, 2))))
    return desc, pars, vals


def reference_pairs(M, rec, rng, g, n_cases):
    """Second, independent oracle: on non-negative inputs the initial clamps are the identity; wherever
    the scalar reference says the un-clamped next value is clearly negative, the step must return a
    negative value when the option naming that quantity is off and exactly zero when it is on — this
    sees a clamp that is applied although its option is off (which a library-vs-library comparison
    cannot), without depending on the dynamics being right."""
    from vf import oracle as OO, refmodel as R

    NE, CE = drive.engines(M)
    for _ in range(n_cases):
        desc, pars, vals = stress_case(g, rng)
        if R.is_singular(desc, vals):
            continue
        try:
            plain = R.ref_step(desc, vals, pars, {})
        except (R.Singular, R.Inadmissible):
            continue
        for eid, d in plain.next.items():
            for name, v in d.items():
                if any(x < 0 for x in (v if isinstance(v, list) else [v])):
                    rec.seen("negative_plain_quantities", name)
        built = D.build(M, desc, D.random_ops(desc, rng))
        kw = drive.step_pars(pars)
        # where is the un-clamped value clearly negative?  (the reference is used for the SIGN only, so a
        # fault of the dynamics themselves — property C01 — does not raise an alarm here)
        neg = {}
        for eid, d in plain.next.items():
            for name, v in d.items():
                vs = v if isinstance(v, list) else [v]
                ms = plain.mag[eid][name]
                ms = ms if isinstance(ms, list) else [ms]
                for i, (x, m) in enumerate(zip(vs, ms)):
                    if x < -1e-2 * (1.0 + m):
                        neg[(eid, name, i)] = x
        if not neg:
            continue
        for opts in combos():
            # spy on the engine's max(): an exact zero only counts as "clamped" if a max() ran in this step
            calls = []
            orig_max = NE.max

            def spy_max(self_, a, b, _o=orig_max, _c=calls):
                r_ = _o(self_, a, b)
                _c.append(r_)
                return r_

            NE.max = spy_max
            try:
                built.net.step(init_conditions=drive.np_init(built, vals, "vec1"), engine=NE(), **opts, **kw)
                got = drive.read_next(built)
            except Exception as e:
                rec.violation(f"{PROP}:numpy: step with options raised {type(e).__name__}", {"desc": desc, "opts": opts, "exception": repr(e)[:300]})
                break
            finally:
                NE.max = orig_max
            if not opts and calls:
                rec.count("max_calls_with_all_options_off")
            rec.count("pairs_reference")
            bad = None
            for (eid, name, i), x in neg.items():
                q_ = [k for k, v in QUANT.items() if v == name][0]
                on = bool(opts.get(f"positive_next_{q_}"))
                g_ = got[eid][name][i] if isinstance(got[eid][name], list) else got[eid][name]
                rec.count("scalars_compared")
                # only the clamp itself is decided: a negative value although the option is on, or an
                # exact zero although it is off (a different positive/negative value is C01's business)
                if on and g_ < 0.0:
                    bad = (eid, name, i, g_, 0.0, f"{name}+ is not clamped at zero although positive_next_{q_} is on")
                elif not on and g_ == 0.0 and any(r_ is built.el(eid).next_states[name] for r_ in calls):
                    bad = (eid, name, i, g_, x, f"{name}+ is clamped at zero although its option is off")
                if bad:
                    break
            if bad:
                eid, name, i, x, y, what = bad
                rec.violation(f"{PROP}:numpy vs sign of the reference model: {what} [options on: {_short(sorted(opts))}]",
                              {"desc": desc, "pars": pars, "vals": vals, "opts": opts, "element": eid, "var": name, "index": i,
                               "observed": x, "unclamped_reference_value": y})
                break


def history_pairs(M, rec, rng, g, n_cases):
    """The options of an EARLIER step must not leak into a later one: the same network objects are
    stepped with some initial clamps on, then stepped again with all options off and a PARTIAL
    init_conditions entry (only a control given numerically, as the repository's MPC examples do) and
    compiled; the function must equal that of a fresh network stepped once in the second way."""
    import casadi as cs

    NE, CE = drive.engines(M)
    for it in range(n_cases):
        desc = g.all_kinds_network() if it % 2 == 0 else g.network()[1]
        ctrl = {"main": "v_ctrl", "ramp": "r", "simple": "q"}
        partial_ids = [o["id"] for o in desc["origins"] if o["kind"] != "ideal"] + [l["id"] for l in desc["links"] if l.get("vsl")]
        if not partial_ids:
            continue
        pars = g.pars()
        kw = drive.step_pars(pars)
        st = ("SX", "MX")[it % 2]
        ops = D.random_ops(desc, rng)
        chosen = rng.sample(partial_ids, rng.randint(1, min(2, len(partial_ids))))

        def partial(built):
            ic = {}
            for eid in chosen:
                o = next((x for x in desc["origins"] if x["id"] == eid), None)
                if o is not None:
                    val = {"main": 250.0, "ramp": 1.0, "simple": 1500.0}[o["kind"]]
                    ic[built.el(eid)] = {ctrl[o["kind"]]: val}
                else:
                    l = next(x for x in desc["links"] if x["id"] == eid)
                    ic[built.el(eid)] = {"v_ctrl": cs.DM([200.0] * len(l["vsl"]))}
            return ic

        on = {o_: True for o_ in ("positive_init_speed", "positive_init_density", "positive_init_queue") if rng.random() < 0.7}
        if not on:
            on = {"positive_init_queue": True, "positive_init_density": True}
        try:
            a = D.build(M, desc, ops)
            ea = CE(st)
            a.net.step(engine=ea, init_conditions=partial(a), **on, **kw)      # earlier step, clamps on
            a.net.step(engine=ea, init_conditions=partial(a), **kw)            # later step, all options off
            Fa = ea.to_function(a.net, compact=2, **kw)
            b = D.build(M, desc, ops)
            eb = CE(st)
            b.net.step(engine=eb, init_conditions=partial(b), **kw)
            Fb = eb.to_function(b.net, compact=2, **kw)
        except Exception as e:
            rec.count("history_pairs_failed")
            rec.seen("history_pairs_failed", repr(e)[:120])
            continue
        sa = [Fa.size1_in(i) for i in range(Fa.n_in())]
        sb = [Fb.size1_in(i) for i in range(Fb.n_in())]
        rec.count("history_pairs")
        ctx = {"desc": desc, "pars": pars, "sym_type": st, "earlier_options": sorted(on), "partial_init_conditions_for": chosen}
        if sa != sb:
            rec.violation(f"{PROP}:{st}: a function compiled after an earlier step with initial clamps has other arguments than that of a fresh network", ctx)
            continue
        for _pt in range(3):
            args = [cs.DM([rng.uniform(-30.0, 120.0) for _ in range(n_)]) for n_ in sa]
            ya = np.asarray(Fa(*args), dtype=float).ravel()
            yb = np.asarray(Fb(*args), dtype=float).ravel()
            rec.count("scalars_compared", len(ya))
            ok_ = np.isclose(ya, yb, rtol=1e-12, atol=1e-12) | (np.isnan(ya) & np.isnan(yb))
            if not ok_.all():
                rec.violation(f"{PROP}:{st}: with all options off the step still clamps (options of an earlier step on the same objects leak into a later step)",
                              dict(ctx, index=int(np.argmin(ok_)), after_history=float(ya[np.argmin(ok_)]), fresh=float(yb[np.argmin(ok_)])))
                break


def casadi_pairs(M, rec, rng, g, desc, pars, st, combo_list):
    symvals = O.SymVals(random.Random(1))
    _, v0 = g.values(desc, allow_inf=False)
    vals = negatives(v0, rng)
    ops = D.random_ops(desc, rng)
    plain = {}
    for opts in combo_list:
        ctx = {"desc": desc, "pars": pars, "vals": vals, "opts": opts, "engine": st}
        try:
            case = CC.CompileCase(M, rng, desc, pars, st, (), opts, ops=ops, own_symbols=(rng.random() < 0.5), named_scalars_prob=0.5)
            compact = rng.choice((0, 1, 2))
            F = case.compile(compact, False)
            if compact not in plain:
                pc = CC.CompileCase(M, rng, desc, pars, st, (), {}, ops=ops)
                plain[compact] = (pc, pc.compile(compact, False))
            pc, Fp = plain[compact]
            got = case.call(F, vals, compact, False)[0]
            base = pc.call(Fp, clamp(vals, opts, "init"), compact, False)[0]
        except Exception as e:
            rec.violation(f"{PROP}:{st}: stepping/compiling with options raised {type(e).__name__}", dict(ctx, exception=repr(e)[:300]))
            continue
        exp = clamp(base, opts, "next")
        rec.count("pairs_casadi_compiled")
        rec.seen(f"combos_{st}", _short(sorted(opts)))
        compare(rec, f"{st} to_function", desc, opts, got, exp, dict(ctx, compact=compact), exact=False)
        # own evaluation of the stepped expressions (independent of to_function)
        try:
            symvals.clear()
            built = D.build(M, desc, ops)
            ic, syms = drive.sym_init(M, built, st, symvals, vals)
            NE, CE = drive.engines(M)
            if rng.random() < 0.5:
                # states handed over as EXPRESSIONS of the caller's symbols that leave the value as it is here (a measurement
                # floored at a far-away tolerance, two estimates fused): whatever the expression looks like, the clamps act on its value
                import casadi as cs

                wraps = (lambda x: cs.fmax(x, -1e7), lambda x: cs.fmax(-1e7, x), lambda x: cs.fmin(x, 1e9), lambda x: cs.fmax(x, x - 1.0), lambda x: -(-x))
                for el_, d_ in ic.items():
                    for nm_ in list(d_):
                        if nm_ in ("rho", "v", "w") and rng.random() < 0.6:
                            d_[nm_] = rng.choice(wraps)(d_[nm_])
                rec.count("own_evaluations_with_states_given_as_expressions")
            built.net.step(init_conditions=ic, engine=CE(st), **opts, **drive.step_pars(pars))
            lay = D.var_layout(desc)
            exprs, index = [], []
            for eid, L in lay.items():
                for name, n in L["states"]:
                    exprs.append(built.el(eid).next_states[name])
                    index.append((eid, name))
            nums, _ = O.eval_exprs(exprs, st, symvals)
            own = {}
            for (eid, name), v in zip(index, nums):
                own.setdefault(eid, {})[name] = v
            rec.count("pairs_casadi_own_eval")
            compare(rec, f"{st} step (own evaluation)", desc, opts, own, exp, ctx, exact=False)
        except Exception as e:
            rec.violation(f"{PROP}:{st}: step with options on user symbols raised {type(e).__name__}", dict(ctx, exception=repr(e)[:300]))


def user_kind_with_a_queue(M, rec, rng, reps):
    """A user-defined link kind that owns a queue and honours `positive_init_queue` like the stock ramps do:
    requesting positive initial queues through Network.step = the plain step on max(0, queue)."""
    import copy

    from vf import userkinds as UK

    NE, CE = drive.engines(M)
    for _ in range(reps):
        n1, n2, n3 = M.Node(name="A"), M.Node(name="B"), M.Node(name="C")

        def build():
            l1 = UK.QueueLink(rng_N, 2, 1.0, 180.0, 33.5, 102.0, 1.867, name="L1")
            l2 = M.Link(2, 2, 1.0, 180.0, 33.5, 102.0, 1.867, name="L2")
            o = M.MeteredOnRamp(2000.0, name="O1")
            net = M.Network().add_path((M.Node(name="A"), l1, M.Node(name="B"), l2, M.Node(name="C")), origin=o, destination=M.Destination(name="D1"))
            return net, l1, l2, o

        rng_N = rng.choice((1, 2, 3))
        vals = {"L1": {"rho": [rng.uniform(5, 60) for _i in range(rng_N)], "v": [rng.uniform(30, 100) for _i in range(rng_N)],
                       "w": [rng.choice((-4.0, -0.5, 3.0))]},
                "L2": {"rho": [rng.uniform(5, 60), rng.uniform(5, 60)], "v": [rng.uniform(30, 100), rng.uniform(30, 100)]},
                "O1": {"w": [rng.choice((-2.5, 0.0, 6.0))], "r": [rng.random()], "d": [rng.uniform(100, 1500)]}}
        clamped = copy.deepcopy(vals)
        clamped["L1"]["w"] = [max(0.0, vals["L1"]["w"][0])]
        clamped["O1"]["w"] = [max(0.0, vals["O1"]["w"][0])]
        kw = dict(T=10 / 3600, tau=18 / 3600, eta=60.0, kappa=40.0)

        def run(v, **opts):
            net, l1, l2, o = build()
            ic = {l1: {k_: np.array(x_) for k_, x_ in v["L1"].items()}, l2: {k_: np.array(x_) for k_, x_ in v["L2"].items()},
                  o: {k_: np.array(x_) for k_, x_ in v["O1"].items()}}
            net.step(init_conditions=ic, engine=NE(), **opts, **kw)
            return {el.name: {k_: np.asarray(x_, dtype=float).ravel().tolist() for k_, x_ in el.next_states.items()} for el in (l1, l2, o)}

        try:
            a = run(vals, positive_init_queue=rng.choice((True, np.True_, 1)))
            b = run(clamped)
        except Exception as e:
            rec.violation(f"{PROP}:user kind with a queue: stepping raised {type(e).__name__}", {"exception": repr(e)[:300]})
            continue
        rec.count("user_kind_queue_option_checks")
        for en, d in a.items():
            for k_, xs in d.items():
                if not all(abs(x - y) <= 1e-12 * (1 + abs(y)) for x, y in zip(xs, b[en][k_])):
                    rec.violation(f"{PROP}:numpy: positive_init_queue did not reach a user-defined kind that owns a queue (step != plain step on max(0, queue))",
                                  {"values": vals, "element": en, "state": k_, "with_option": xs, "plain_on_clamped": b[en][k_]})
                    break


def user_origin_with_a_speed_state(M, rec, rng, reps):
    """A user-defined ORIGIN kind that owns a speed state (a virtual upstream cell) and honours `positive_init_speed`:
    requesting positive initial speeds through Network.step = the plain step on max(0, speed), for that origin as for the links."""
    import copy

    from vf import userkinds as UK

    NE, CE = drive.engines(M)
    for _ in range(reps):
        N_ = rng.choice((1, 2, 3))

        def build():
            l1 = M.Link(N_, 2, 1.0, 180.0, 33.5, 102.0, 1.867, name="L1")
            o = UK.BoundaryCell(name="O1")
            net = M.Network().add_path((M.Node(name="A"), l1, M.Node(name="B")), origin=o, destination=M.Destination(name="D1"))
            return net, l1, o

        vals = {"L1": {"rho": [rng.uniform(5, 60) for _i in range(N_)], "v": [rng.choice((-8.0, rng.uniform(30, 100))) for _i in range(N_)]},
                "O1": {"w": [rng.uniform(0.0, 20.0)], "v_in": [rng.choice((-25.0, -3.0, 40.0))], "d": [rng.uniform(500, 3000)], "v_ctrl": [300.0]}}
        clamped = copy.deepcopy(vals)
        clamped["L1"]["v"] = [max(0.0, x) for x in vals["L1"]["v"]]
        clamped["O1"]["v_in"] = [max(0.0, vals["O1"]["v_in"][0])]
        kw = dict(T=10 / 3600, tau=18 / 3600, eta=60.0, kappa=40.0)

        def run(v, **opts):
            net, l1, o = build()
            ic = {l1: {k_: np.array(x_) for k_, x_ in v["L1"].items()}, o: {k_: np.array(x_) for k_, x_ in v["O1"].items()}}
            net.step(init_conditions=ic, engine=NE(), **opts, **kw)
            return {el.name: {k_: np.asarray(x_, dtype=float).ravel().tolist() for k_, x_ in el.next_states.items()} for el in (l1, o)}

        try:
            a = run(vals, positive_init_speed=rng.choice((True, np.True_, 1)))
            b = run(clamped)
        except Exception as e:
            rec.violation(f"{PROP}:user origin kind with a speed state: stepping raised {type(e).__name__}", {"exception": repr(e)[:300]})
            continue
        rec.count("user_origin_speed_option_checks")
        for en, d in a.items():
            for k_, xs in d.items():
                if not all((x == y) or abs(x - y) <= 1e-12 * (1 + abs(y)) or (math.isnan(x) and math.isnan(y)) for x, y in zip(xs, b[en][k_])):
                    rec.violation(f"{PROP}:numpy: positive_init_speed did not reach a user-defined origin kind that owns a speed state (step != plain step on max(0, speed))",
                                  {"values": vals, "element": en, "state": k_, "with_option": xs, "plain_on_clamped": b[en][k_]})
                    break


def restep_on_own_states(M, rec, rng, g, n_cases):
    """The clamped variant of a model over the same variables: a network is stepped plainly, then stepped again from the
    mappings its elements hold (`{link: link.states}` - the very dict objects - merged with the actions / disturbances
    where an element has some), now with initial clamps requested: the result is the plain step applied to max(0, .)."""
    NE, CE = drive.engines(M)
    for it in range(n_cases):
        desc = g.all_kinds_network() if it % 4 == 0 else g.network()[1]
        pars = g.pars()
        kw = drive.step_pars(pars)
        _, v0 = g.values(desc, allow_inf=False)
        vals = negatives(v0, rng, 0.4)
        opts = {o_: True for o_ in ("positive_init_density", "positive_init_speed", "positive_init_queue") if rng.random() < 0.6}
        if not opts:
            opts = {"positive_init_density": True, "positive_init_speed": True}
        try:
            ops = D.random_ops(desc, rng)
            a = D.build(M, desc, ops)
            a.net.step(init_conditions=drive.np_init(a, vals, "vec1"), engine=NE(), **kw)
            ic = {}
            for el in list(a.net.elements):
                if el.states and not el.actions and not el.disturbances:
                    ic[el] = el.states  # the element's own mapping, as it stands
                    rec.count("elements_re_initialised_on_their_own_state_mapping")
                else:
                    merged = {}
                    for grp in (el.states, el.actions, el.disturbances):
                        if grp:
                            merged.update(grp)
                    if merged:
                        ic[el] = merged
            a.net.step(init_conditions=ic, engine=NE(), **opts, **kw)
            got = drive.read_next(a)
            b = D.build(M, desc, ops)
            b.net.step(init_conditions=drive.np_init(b, clamp(vals, opts, "init"), "vec1"), engine=NE(), **kw)
            exp = drive.read_next(b)
        except Exception as e:
            rec.count("restep_on_own_states_failed")
            rec.seen("restep_on_own_states_failed", repr(e)[:120])
            continue
        rec.count("resteps_on_own_states")
        compare(rec, "numpy (re-stepped from the elements' own mappings)", desc, opts, got, exp,
                {"desc": desc, "pars": pars, "vals": vals, "opts": opts, "engine": "numpy"}, exact=False)


def run(M, rec, tier, seed, k, n):
    np.seterr(all="ignore")
    rng = random.Random(seed * 1000 + k + 1100)
    g = G.NetGen(rng)
    sh = W.shapes_cycle()
    allc = list(combos())
    nn = 24 if tier == "quick" else 160
    for it in range(nn):
        shape = next(sh)
        desc = g.all_kinds_network() if it % 3 == 0 else g.network(shape)[1]
        pars = g.pars()
        numpy_pairs(M, rec, rng, g, desc, pars, 2)
        st = ("SX", "MX")[it % 2]
        full = it < (4 if tier == "quick" else 16)
        cl = allc if full else rng.sample(allc, 6)
        casadi_pairs(M, rec, rng, g, desc, pars, st, cl)
    reference_pairs(M, rec, rng, g, 14 if tier == "quick" else 90)
    history_pairs(M, rec, rng, g, 16 if tier == "quick" else 120)
    user_kind_with_a_queue(M, rec, rng, 40 if tier == "quick" else 400)
    user_origin_with_a_speed_state(M, rec, rng, 40 if tier == "quick" else 400)
    restep_on_own_states(M, rec, rng, g, 30 if tier == "quick" else 300)
    W.preallocated_buffers(M, rec, rng, PROP, 24 if tier == "quick" else 240, with_options=True, what="a step with initial clamps")
    W.complex_step_jacobians(M, rec, rng, PROP, 40 if tier == "quick" else 400, with_options=True, what="a step with positivity options")


def finish(M, rec, write=True):
    if not rec.violations:
        for e in ("numpy", "SX", "MX"):
            rec.gate(rec.n_seen(f"combos_{e}") == 64, f"not all 64 option combinations exercised on {e} ({rec.n_seen(f'combos_{e}')})")
        rec.gate(rec.counters.get("scalars_compared", 0) > 0, "nothing compared")
        rec.gate(rec.counters.get("history_pairs", 0) > 0, f"no history pair evaluated: {sorted(rec.cover.get('history_pairs_failed', []))[:2]}")
        for q_ in ("v", "rho", "w"):
            rec.gate(q_ in rec.cover.get("negative_plain_quantities", set()),
                     f"no case whose plain next {q_} is negative (nothing for the clamp to act on)")
    rec.extra["exhaustive_subspaces"] = ["all 64 combinations of the six positivity options on every engine"]
    return rec.finish(
        ["pairs_numpy", "pairs_casadi_compiled", "pairs_casadi_own_eval", "pairs_reference", "history_pairs"],
        ["combos_numpy", "combos_SX", "combos_MX"],
        rule="networks with all element kinds / random shape classes; inputs with ~30 % negative densities, speeds and queues; all 64 "
        "combinations of the six positivity options on NumPy (bitwise) and on SX/MX (via to_function at a random compactness level and via "
        "the monitor's own evaluation of the stepped expressions); expectation = clamp_next(plain(clamp_init(x))) computed with the same "
        "engine; elements whose plain result is NaN are skipped and counted; plus a second oracle on non-negative stress inputs (slow traffic into a "
        "jam, short fast sparse segments, unlimited ramps) whose plain next values are partly negative: all 64 combinations vs "
        "clamp_next(scalar reference model); distinct = option combinations per engine",
        exhaustive=None,
        assumptions=["max(0, NaN) is not defined by the property: such elements are skipped"],
        write=write,
    )
