"""C06 — validation accepts a network exactly when the nine documented conditions hold.

In-situ monitor on ``Network.is_valid``: every call (any workload) is compared with the
nine conditions evaluated literally on the raw networkx graph; raises-mode must raise
``InvalidNetworkError`` exactly when invalid; an invalid verdict carries >= 1 message.
"""
import functools
import itertools
import random

import numpy as np

from vf import desc as D, extract as X, gen as G

PROP = "C06"
WATCHDOG_S = 3000


class ValidMonitor:
    def __init__(self, M, rec):
        self.M, self.rec = M, rec
        self._orig = None

    def install(self):
        M, rec = self.M, self.rec
        orig = M.Network.is_valid
        self._orig = orig
        from sym_metanet.errors import InvalidNetworkError

        @functools.wraps(orig)
        def is_valid(net, *a, **kw):
            raises = kw.get("raises", a[0] if a else False)
            try:
                bad = X.validity_conditions(M, net)
            except Exception:
                rec.count("monitor_internal_errors")
                return orig(net, *a, **kw)
            rec.count("is_valid_calls")
            key = tuple(sorted(bad))
            rec.seen("violated_sets", key)
            if len(bad) == 1:
                rec.seen("only_violated", next(iter(bad)))
            for c in range(1, 10):
                if c not in bad:
                    rec.seen("satisfied", c)
            rec.count("valid_networks" if not bad else "invalid_networks")
            try:
                out = orig(net, *a, **kw)
            except InvalidNetworkError as e:
                if not raises:
                    rec.violation(f"{PROP}:is_valid(raises=False) raised InvalidNetworkError",
                                  self._w(net, bad, repr(e)))
                elif not bad:
                    rec.violation(f"{PROP}:is_valid(raises=True) raised on a network that satisfies all nine conditions",
                                  self._w(net, bad, repr(e)))
                else:
                    rec.count("raises_mode_raised_as_expected")
                raise
            except BaseException as e:
                rec.violation(f"{PROP}:is_valid raised {type(e).__name__} (not the invalid-network error); violated={self._cls(bad)}",
                              self._w(net, bad, repr(e)[:300]))
                raise
            try:
                ok, msgs = out
            except Exception:
                rec.violation(f"{PROP}:is_valid did not return (bool, messages)", self._w(net, bad, repr(out)[:200]))
                return out
            if raises and bad:
                rec.violation(f"{PROP}:is_valid(raises=True) returned although condition(s) {self._cls(bad)} violated",
                              self._w(net, bad, repr(out)[:300]))
            if bool(ok) != (not bad):
                if bad:
                    rec.violation(f"{PROP}:reported valid although condition(s) {self._cls(bad)} violated",
                                  self._w(net, bad, repr(out)[:300]))
                else:
                    rec.violation(f"{PROP}:reported invalid although all nine conditions hold",
                                  self._w(net, bad, repr(out)[:300]))
            elif not ok and len(msgs) < 1:
                rec.violation(f"{PROP}:invalid verdict without any message", self._w(net, bad, repr(out)))
            elif ok and len(msgs) > 0:
                rec.count("valid_verdict_with_messages")  # not forbidden by the statement
            return out

        M.Network.is_valid = is_valid
        return self

    def uninstall(self):
        if self._orig is not None:
            self.M.Network.is_valid = self._orig
            self._orig = None

    @staticmethod
    def _cls(bad):
        # mechanism keys name the violated conditions only when there are few
        b = sorted(bad)
        return str(b) if len(b) <= 2 else f"{b[:2]}+"

    def _w(self, net, bad, obs):
        G_ = X.raw_graph(net)
        nodes = list(G_.nodes)
        idx = {id(n): i for i, n in enumerate(nodes)}
        return {
            "violated_conditions": sorted(bad),
            "observed": obs,
            "nodes": [
                {"i": i, "origin": type(G_.nodes[n].get("origin")).__name__ if "origin" in G_.nodes[n] else None,
                 "destination": type(G_.nodes[n].get("destination")).__name__ if "destination" in G_.nodes[n] else None}
                for i, n in enumerate(nodes)
            ],
            "edges": [(idx[id(u)], idx[id(w)], d["link"].name) for u in nodes for w, d in G_.succ[u].items()],
        }


def mklink(M, name=None):
    return M.Link(2, 2, 1.0, 180.0, 33.0, 100.0, 1.8, name=name)


OKINDS = ("none", "ideal", "main", "ramp", "simple")


def mkorigin(M, kind):
    if D.FORMS["rng"] is not None and D.FORMS["rng"].random() < 0.15:
        # user-defined kinds derived from the stock kinds: the conditions speak of what an origin IS
        from vf import userkinds as UK

        if kind == "ideal":
            return UK.BoundaryDetector()
        if kind == "ramp":
            return UK.AlineaRamp(2000.0) if D.FORMS["rng"].random() < 0.6 else UK.VirtualRamp()
        if kind == "simple":
            return UK.HovRamp(2000.0)
    if kind == "ideal":
        return M.Origin()
    if kind == "main":
        return M.MainstreamOrigin()
    if kind == "ramp":
        return M.MeteredOnRamp(2000.0)
    return M.SimplifiedMeteredOnRamp(2000.0)


def build_graph(M, n, edges, roles, rng=None, form=0):
    """Builds through the public API; roles[v] = (origin kind, has destination)."""
    nodes = [M.Node(name=f"N{v}") for v in range(n)]
    net = M.Network()
    if form % 2 == 0:
        net.add_nodes(nodes)
    else:
        for nd in nodes:
            net.add_node(nd)
    if form % 3 == 0:
        net.add_links([(nodes[i], mklink(M), nodes[j]) for i, j in edges])
    else:
        for i, j in edges:
            net.add_link(nodes[i], mklink(M), nodes[j])
    for v, (ok, hd) in enumerate(roles):
        if ok != "none":
            net.add_origin(mkorigin(M, ok), nodes[v])
        if hd:
            net.add_destination(M.CongestedDestination() if (v + form) % 2 else M.Destination(), nodes[v])
    return net, nodes


def annotate(net, rng):
    """Ordinary networkx attributes stored on the public graph (positions for drawing, labels, lengths):
    they say nothing about origins, destinations or links."""
    G_ = net.G
    links_ = [d_["link"] for _u, _v, d_ in G_.edges(data=True) if "link" in d_]
    for i_, n_ in enumerate(list(G_.nodes)):
        if links_ and rng.random() < 0.3:
            # an annotation of the caller's own that HOLDS an element of the network (the link a ramp controller measures)
            G_.nodes[n_]["measured_link"] = rng.choice(links_)
        if rng.random() < 0.7:
            G_.nodes[n_]["pos"] = (float(i_), 0.0)
        if rng.random() < 0.3:
            G_.nodes[n_]["label"] = "x"
    # routing tags on the edges may well be CALLED "origin" / "destination" (the exit a link's traffic leaves through, the
    # entry it came from) and hold the very objects attached to nodes, the same one on several edges
    dests_ = [d_["destination"] for d_ in G_.nodes.values() if "destination" in d_] or ["exit A"]
    orgs_ = [d_["origin"] for d_ in G_.nodes.values() if "origin" in d_] or ["entry A"]
    tag = rng.random() < 0.5
    for u_, v_ in list(G_.edges):
        if rng.random() < 0.5:
            G_.edges[u_, v_]["length"] = 1.0
        if tag:
            G_.edges[u_, v_]["destination"] = rng.choice(dests_)
            if rng.random() < 0.6:
                G_.edges[u_, v_]["origin"] = rng.choice(orgs_)


def query(net, rng):
    """Both modes, in random order (so a stale memo from one call would show in the other)."""
    if rng.random() < 0.2:
        annotate(net, rng)
    modes = [False, True]
    if rng.random() < 0.5:
        modes.reverse()
    for r in modes:
        try:
            # the switch as callers write it: the literal, a NumPy boolean (`np.all(flags)`), 1 / 0 from a config or command line
            r_ = rng.choice((True, True, np.True_, 1) if r else (False, False, np.False_, 0, None))
            if r_ is not True and r_ is not False:
                D.FORM_STATS["is_valid: switch written as numpy bool / 0 / 1 / None"] = D.FORM_STATS.get("is_valid: switch written as numpy bool / 0 / 1 / None", 0) + 1
            positional = rng.random() < 0.3
        except Exception:
            raise
        try:
            out = net.is_valid(r_) if positional else net.is_valid(raises=r_)
        except Exception:
            continue
        # the returned list of messages is the caller's: popping them while logging, clearing it or adding
        # a remark of one's own must not change the next verdict (the in-situ monitor decides every call)
        if isinstance(out, tuple) and len(out) == 2 and isinstance(out[1], list) and rng.random() < 0.4:
            how = rng.choice(("clear", "append", "pop"))
            if how == "clear":
                out[1].clear()
            elif how == "append":
                out[1].append("a remark added by the caller")
            elif out[1]:
                out[1].pop()
            try:
                net.is_valid(raises=rng.random() < 0.3)
            except Exception:
                pass


def exhaustive(M, rec, rng, nmax, k, nsh, role_sample=None):
    i = 0
    for n in range(1, nmax + 1):
        per_node = list(itertools.product(OKINDS, (False, True)))
        for edges in G.all_digraphs(n):
            for roles in itertools.product(per_node, repeat=n):
                i += 1
                if i % nsh != k:
                    continue
                if role_sample is not None and n == nmax and rng.random() > role_sample:
                    continue
                net, _ = build_graph(M, n, edges, roles, rng, form=i)
                rec.count("exhaustive_graphs")
                query(net, rng)
                if rec.counters["exhaustive_graphs"] in (5, 500):
                    rec.sample({"n": n, "edges": edges, "roles": roles})


def shared_objects(M, rec, rng, reps):
    for _ in range(reps):
        n = rng.randint(2, 4)
        nodes = [M.Node() for _ in range(n)]
        net = M.Network()
        kind = rng.choice(("link", "origin", "dest", "link+path"))
        l = mklink(M)
        # a valid chain first
        for a, b in zip(nodes, nodes[1:]):
            net.add_link(a, mklink(M), b)
        net.add_origin(M.MeteredOnRamp(1000.0), nodes[0])
        net.add_destination(M.Destination(), nodes[-1])
        if kind == "link":
            a, b = rng.sample(range(n), 2)
            net.add_link(nodes[a], l, nodes[b])
            c, d = rng.sample(range(n), 2)
            net.add_link(nodes[c], l, nodes[d])
        elif kind == "link+path":
            extra = M.Node()
            net.add_path((nodes[0], l, extra, l, nodes[-1]))
        elif kind == "origin":
            o = mkorigin(M, rng.choice(OKINDS[1:]))
            for v in rng.sample(range(n), 2):
                net.add_origin(o, nodes[v])
        else:
            d_ = M.Destination()
            for v in rng.sample(range(n), 2):
                net.add_destination(d_, nodes[v])
        rec.count("shared_object_graphs")
        query(net, rng)


def only_duplicates(M, rec, rng, reps):
    """Valid networks in which ONE element object is used at two places of the same kind (so that
    condition 1 is the only violated one), for every arrangement the random topologies and
    construction orders produce (adjacent or interleaved in the library's enumeration)."""
    from vf import desc as D

    g = G.NetGen(rng)
    for _ in range(reps):
        _, desc = g.network()
        nodes, links, origins, dests = D.make_objects(M, desc)
        what = rng.choice(("link", "link", "origin", "dest"))
        if what == "link" and len(desc["links"]) >= 2:
            a, b = rng.sample([l["id"] for l in desc["links"]], 2)
            links[b] = links[a]
        elif what == "origin":
            cands = [o for o in desc["origins"]]
            pairs = [(x, y) for x in cands for y in cands if x is not y and x["kind"] == y["kind"]]
            if not pairs:
                continue
            x, y = rng.choice(pairs)
            origins[y["id"]] = origins[x["id"]]
        elif what == "dest" and len(desc["dests"]) >= 2:
            a, b = rng.sample([d["id"] for d in desc["dests"]], 2)
            dests[b] = dests[a]
        else:
            continue
        net = M.Network()
        ops = D.random_ops(desc, rng)
        linkd = {l["id"]: l for l in desc["links"]}
        orgd = {o["id"]: o for o in desc["origins"]}
        dstd = {d["id"]: d for d in desc["dests"]}
        for op in ops:
            k = op[0]
            if k == "node":
                net.add_node(nodes[op[1]])
            elif k == "nodes":
                net.add_nodes([nodes[n] for n in op[1]])
            elif k in ("link", "path"):
                l = linkd[op[1]]
                net.add_link(nodes[l["up"]], links[op[1]], nodes[l["down"]])
            elif k == "links":
                net.add_links([(nodes[linkd[i]["up"]], links[i], nodes[linkd[i]["down"]]) for i in op[1]])
            elif k == "origin":
                net.add_origin(origins[op[1]], nodes[orgd[op[1]]["node"]])
            elif k == "dest":
                net.add_destination(dests[op[1]], nodes[dstd[op[1]]["node"]])
        rec.count("only_duplicate_graphs")
        rec.seen("duplicate_kinds", what)
        query(net, rng)


def random_graphs(M, rec, rng, reps):
    g = G.NetGen(rng)
    for _ in range(reps):
        if rng.random() < 0.5:
            # a valid network, possibly broken by one random edit
            from vf import desc as D

            _, desc = g.network()
            built = D.build(M, desc, D.random_ops(desc, rng))
            net = built.net
            nodes = list(built.nodes.values())
            edit = rng.choice(("none", "none", "edge", "origin", "dest", "node", "replace_origin"))
            if edit == "edge":
                a, b = rng.choice(nodes), rng.choice(nodes)
                net.add_link(a, mklink(M), b)
            elif edit == "origin":
                net.add_origin(mkorigin(M, rng.choice(OKINDS[1:])), rng.choice(nodes))
            elif edit == "dest":
                net.add_destination(M.Destination(), rng.choice(nodes))
            elif edit == "node":
                net.add_node(M.Node())
            elif edit == "replace_origin" and built.origins:
                o = rng.choice(list(desc["origins"]))
                net.add_origin(mkorigin(M, rng.choice(OKINDS[1:])), built.nodes[o["node"]])
        else:
            n = rng.randint(3, 7)
            p = rng.choice((0.1, 0.2, 0.35))
            edges = [(i, j) for i in range(n) for j in range(n) if rng.random() < p]
            roles = []
            for v in range(n):
                indeg = sum(1 for (_, j) in edges if j == v)
                outdeg = sum(1 for (i, _) in edges if i == v)
                ok = "none"
                hd = False
                if indeg == 0 and rng.random() < 0.85:
                    ok = rng.choice(OKINDS[1:])
                elif outdeg == 1 and rng.random() < 0.3:
                    ok = rng.choice(OKINDS[1:])
                if outdeg == 0 and rng.random() < 0.85:
                    hd = True
                elif rng.random() < 0.05:
                    hd = True
                roles.append((ok, hd))
            net, _ = build_graph(M, n, edges, roles, rng, form=rng.randint(0, 5))
        rec.count("random_graphs")
        query(net, rng)


def histories(M, rec, rng, reps):
    """Construction histories with interleaved lookups and intermediate validations."""
    for _ in range(reps):
        nodes = [M.Node() for _ in range(rng.randint(2, 4))]
        net = M.Network()
        for step in range(rng.randint(3, 10)):
            op = rng.choice(("link", "link", "origin", "dest", "node", "read", "valid"))
            try:
                if op == "link":
                    net.add_link(rng.choice(nodes), mklink(M), rng.choice(nodes))
                elif op == "origin":
                    net.add_origin(mkorigin(M, rng.choice(OKINDS[1:])), rng.choice(nodes))
                elif op == "dest":
                    net.add_destination(M.Destination(), rng.choice(nodes))
                elif op == "node":
                    net.add_node(rng.choice(nodes))
                elif op == "read":
                    for a in ("origins", "destinations", "origins_by_node", "destinations_by_node",
                              "nodes_by_link", "links_by_name", "nodes_by_name"):
                        getattr(net, a)
                    for nd in list(net.nodes):
                        net.in_links(nd), net.out_links(nd)
                else:
                    query(net, rng)
            except Exception:
                pass
        rec.count("histories")
        query(net, rng)


def scripted_user_kinds(M, rec):
    """In every run: each user-defined origin kind (derived ramps, a ramp declared with `register`, a derived
    ideal origin) at an interior node, at a merge and at a source, validated in both modes (the in-situ
    monitor decides against the nine conditions, which speak of what an origin IS)."""
    from vf import userkinds as UK

    mk = lambda: M.Link(1, 2, 1.0, 180.0, 33.5, 102.0, 1.867)  # noqa: E731
    for make in (lambda: UK.AlineaRamp(2000.0), lambda: UK.HovRamp(2000.0), lambda: UK.VirtualRamp(), lambda: UK.BoundaryDetector(),
                 lambda: M.MeteredOnRamp(2000.0), lambda: M.MainstreamOrigin()):
        for where in ("interior", "merge", "source"):
            n = [M.Node() for _ in range(4)]
            net = M.Network().add_path((n[0], mk(), n[1], mk(), n[2]), origin=M.Origin(), destination=M.Destination())
            if where == "interior":
                net.add_origin(make(), n[1])
            elif where == "merge":
                net.add_path((n[3], mk(), n[1]), origin=M.MainstreamOrigin())
                net.add_origin(make(), n[1])
            else:
                net.add_origin(make(), n[0])
            rec.count("scripted_user_kind_graphs")
            for r in (False, True):
                try:
                    net.is_valid(raises=r)
                except Exception:
                    pass
    # a kind declared a ramp (ABC.register) only AFTER networks holding it have been validated: what an origin is, is asked
    # at the time of each validation (fresh classes per run: registration cannot be undone)
    for first in ("interior", "source", "merge"):
        LateRamp = type("LateRamp", (UK.BoundaryDetector,), {})
        nets = []
        for where in (first, "interior", "merge"):
            n = [M.Node() for _ in range(4)]
            net = M.Network().add_path((n[0], mk(), n[1], mk(), n[2]), origin=M.Origin(), destination=M.Destination())
            if where == "merge":
                net.add_path((n[3], mk(), n[1]), origin=M.MainstreamOrigin())
            net.add_origin(LateRamp(), n[0] if where == "source" else n[1])
            nets.append(net)
        for r in (False, True):
            try:
                nets[0].is_valid(raises=r)
            except Exception:
                pass
        M.MeteredOnRamp.register(LateRamp)
        for net in nets:
            rec.count("scripted_user_kind_graphs")
            rec.count("validations_after_late_registration")
            for r in (False, True):
                try:
                    net.is_valid(raises=r)
                except Exception:
                    pass


def index_hashed_kinds(M, rec):
    """Scripted in every run: element kinds that define `__hash__` only (a per-family index; equality stays identity): different
    elements may well share a hash value - across families (link 1, origin 1, destination 1) and within one."""
    from vf import userkinds as UK

    def mk(cls, idx, *a, **k):
        o = cls(*a, **k)
        o.idx = idx
        return o

    for idxs in ((1, 2, 1, 1), (1, 1, 1, 1), (1, 2, 3, 4), (7, 7, 3, 3)):
        for node_cls in (M.Node, UK.IdxNode):
            nodes = [mk(node_cls, i_ + 1) if node_cls is UK.IdxNode else M.Node() for i_ in range(3)]
            l1 = mk(UK.IdxLink, idxs[0], 2, 2, 1.0, 180.0, 33.5, 102.0, 1.867)
            l2 = mk(UK.IdxLink, idxs[1], 1, 2, 1.0, 180.0, 33.5, 102.0, 1.867)
            net = M.Network().add_path((nodes[0], l1, nodes[1], l2, nodes[2]), origin=mk(UK.IdxOrigin, idxs[2]), destination=mk(UK.IdxDestination, idxs[3]))
            rec.count("networks_of_index_hashed_element_kinds")
            for r in (False, True):
                try:
                    net.is_valid(raises=r)
                except Exception:
                    pass


def large_networks(M, rec):
    """Scripted in every run: corridors of a few hundred links (a ring road, a city model) - valid as built, and with one
    ramp / destination / link object placed twice far down the corridor (condition 1), in both modes (the in-situ monitor
    decides against the nine conditions)."""
    mk = lambda: M.Link(1, 2, 1.0, 180.0, 33.5, 102.0, 1.867)  # noqa: E731
    for n_links, fault in ((300, None), (300, "ramp"), (280, "link"), (320, "destination"), (257, "ramp"), (130, "ramp")):
        nodes = [M.Node() for _ in range(n_links + 1)]
        path = [nodes[0]]
        for i in range(n_links):
            path += [mk(), nodes[i + 1]]
        dest = M.Destination()
        net = M.Network().add_path(tuple(path), origin=M.MainstreamOrigin(), destination=dest)
        ramp = M.MeteredOnRamp(1500.0)
        net.add_origin(ramp, nodes[n_links - 20])
        if fault == "ramp":
            net.add_origin(ramp, nodes[n_links - 5])
        elif fault == "link":
            net.add_link(nodes[n_links - 3], path[2 * (n_links - 10) + 1], nodes[n_links - 1])  # a link object of the corridor laid a second time
        elif fault == "destination":
            spur = M.Node()
            net.add_link(nodes[n_links - 2], mk(), spur).add_destination(dest, spur)
        rec.count("large_networks_validated")
        for r in (False, True):
            try:
                net.is_valid(raises=r)
            except Exception:
                pass


def homonymous_elements(M, rec):
    """Scripted in every run: *different* elements carrying one user-chosen name (the two carriageways of a motorway both called
    "A13", a ramp named after its link, every element called "x") - condition 1 speaks of an element placed twice, not of names;
    the same layouts with one object really placed twice. The in-situ monitor decides against the nine conditions."""
    lk = lambda nm: M.Link(2, 2, 1.0, 180.0, 33.5, 102.0, 1.867, name=nm)  # noqa: E731
    for names, fault in (
        (("A13", "A13", "O", "D", "R"), None),
        (("A13", "A13", "A13", "A13", "A13"), None),
        (("L1", "L2", "L1", "L2", "L1"), None),
        (("L1", "L2", "same", "same", "same"), None),
        (("A13", "A13", "O", "D", "R"), "ramp"),
        (("L1", "L2", "O", "D", "R"), "link"),
    ):
        for node_names in ((None, None, None, None), ("N", "N", "N", "N")):
            nodes = [M.Node(name=nn) if nn else M.Node() for nn in node_names]
            l1, l2 = lk(names[0]), lk(names[1])
            ramp = M.MeteredOnRamp(1500.0, name=names[4])
            net = M.Network().add_path((nodes[0], l1, nodes[1], l2, nodes[2]), origin=M.MainstreamOrigin(name=names[2]),
                                       destination=M.Destination(name=names[3]))
            net.add_origin(ramp, nodes[1])
            if fault == "ramp":
                net.add_link(nodes[3], lk(names[0]), nodes[1]).add_origin(ramp, nodes[3])
            elif fault == "link":
                net.add_link(nodes[3], l1, nodes[1]).add_origin(M.Origin(name=names[2]), nodes[3])
            else:
                net.add_link(nodes[3], lk(names[0]), nodes[1]).add_origin(M.Origin(name=names[2]), nodes[3])
            rec.count("networks_of_homonymous_elements")
            for r in (False, True):
                try:
                    net.is_valid(raises=r)
                except Exception:
                    pass


def run(M, rec, tier, seed, k, n):
    rng = random.Random(seed * 1000 + k + 600)
    mon = ValidMonitor(M, rec).install()
    try:
        scripted_user_kinds(M, rec)
        large_networks(M, rec)
        index_hashed_kinds(M, rec)
        homonymous_elements(M, rec)
        if tier == "quick":
            exhaustive(M, rec, rng, 2, 0, 1)
            shared_objects(M, rec, rng, 150)
            only_duplicates(M, rec, rng, 300)
            random_graphs(M, rec, rng, 800)
            histories(M, rec, rng, 400)
            rec.extra["exhaustive_up_to_nodes"] = 2
        else:
            exhaustive(M, rec, rng, 3, k, n)
            shared_objects(M, rec, rng, 600)
            only_duplicates(M, rec, rng, 4000)
            random_graphs(M, rec, rng, 15000)
            histories(M, rec, rng, 8000)
            rec.extra["exhaustive_up_to_nodes"] = 3
    finally:
        mon.uninstall()
    if k == 0:
        from vf import workloads as W

        W.repo_tests(rec, [PROP])


def finish(M, rec, write=True):
    if not rec.violations:
        only = rec.cover.get("only_violated", set())
        sat = rec.cover.get("satisfied", set())
        for c in range(1, 10):
            # condition 3 (isolated node) can never be the only violated one: an isolated node also
            # violates 4 or 5, or 2 when it carries both an origin and a destination
            if c != 3:
                rec.gate(repr(c) in only, f"condition {c} never observed as the only violated one")
            rec.gate(repr(c) in sat, f"condition {c} never observed satisfied")
        nv, ni = rec.counters.get("valid_networks", 0), rec.counters.get("invalid_networks", 0)
        rec.gate(nv >= 0.02 * (nv + ni), "fewer than 2 % valid networks")
        rec.gate(rec.counters.get("monitor_internal_errors", 0) == 0, "monitor internal errors")
    rec.extra["exhaustive_subspaces"] = [f"all labelled digraphs with self-loops on <= {rec.extra.get('exhaustive_up_to_nodes')} nodes x 10 roles per node, both raises modes"]
    return rec.finish(
        "is_valid_calls",
        ["violated_sets"],
        rule="all labelled digraphs with self-loops on <= N nodes (N in coverage.exhaustive_up_to_nodes) x per-node roles "
        "{none, ideal, mainstream, metered, simplified origin} x {no destination, destination}, built through the public "
        "API, + shared-object variants + random graphs up to 7 nodes + random construction histories with interleaved "
        "lookups; both raises modes; distinct = distinct sets of violated conditions observed",
        exhaustive=None,
        assumptions=["the nine conditions are read literally from the docstring of Network.is_valid and evaluated on the raw networkx graph"],
        write=write,
    )
