"""C03 — the compiled CasADi function computes the same step as the NumPy engine.

Pairs of executions on one description: (a) CasADi step (SX / MX) + ``to_function`` at
compactness 0/1/2, with/without flow outputs, with/without symbolic parameters, evaluated
at numeric points; (b) a twin network stepped with the NumPy engine from the same numbers
and options.  Every next state must agree (1e-9 relative); SX and MX therefore agree too
(also compared directly).
"""
import math
import random

import numpy as np

from vf import compilecases as CC, desc as D, gen as G, refmodel as R, reach, workloads as W

PROP = "C03"
WATCHDOG_S = 3000


def close(a, b, m=0.0):
    if math.isnan(a) or math.isnan(b):
        return False
    return a == b or abs(a - b) <= 1e-9 * (1.0 + abs(a) + abs(b) + m)


def magnitudes(desc, vals, pars):
    """Sum of absolute terms of every update (from the scalar reference) — the scale of the
    rounding error when terms cancel."""
    try:
        return R.ref_step(desc, vals, pars).mag
    except Exception:
        return {}


def compare(rec, tag, desc, A, B, ctx, mags=None):
    for eid, d in B.items():
        for name, v in d.items():
            vb = v if isinstance(v, list) else [v]
            va = A.get(eid, {}).get(name)
            if va is None:
                rec.violation(f"{PROP}:{tag}: compiled function gives no successor for a state", dict(ctx, element=eid, var=name))
                return False
            va = va if isinstance(va, list) else [va]
            mg = (mags or {}).get(eid, {}).get(name, 1e3)
            mg = mg if isinstance(mg, list) else [mg] * len(vb)
            for i, (x, y) in enumerate(zip(va, vb)):
                rec.count("scalars_compared")
                if not close(x, y, mg[i] if i < len(mg) else 1e3):
                    kind = "link" if any(l["id"] == eid for l in desc["links"]) else "origin"
                    rec.violation(f"{PROP}:{tag}: {kind}.{name}+ differs", dict(ctx, element=eid, var=name, index=i, compiled=x, other=y))
                    return False
    return True


def run(M, rec, tier, seed, k, n):
    W.USER_KINDS["prob"] = 0.12  # user-defined origin / link kinds (README "Extensions")
    np.seterr(all="ignore")
    rng = random.Random(seed * 1000 + k + 300)
    g = G.NetGen(rng)
    sh = W.shapes_cycle()
    try:
        for it in range(110 if tier == "quick" else 1200):
            shp, desc, built0 = W.make_net(M, g, next(sh), rng)
            force_long = it % 8 == 3
            if force_long:  # a link with two-digit segment indices + initial clamps (symbols re-extracted)
                desc = g.network(rng.choice(("chain", "ramp", "random")), force=("long",))[1]
            pars = g.pars()
            kinds = set(o["kind"] for o in desc["origins"]) | set("dest-" + d["kind"] for d in desc["dests"])
            for kd in kinds:
                rec.seen("element_kinds", kd)
            per_type = {}
            points = []
            from vf import drive as _drive

            intflags = []
            for _ in range(3):
                _, vals = g.values(desc, allow_inf=(rng.random() < 0.5))
                as_int = rng.random() < 0.2
                if as_int:
                    vals = _drive.integerise(vals)
                if not R.is_singular(desc, vals):
                    points.append(vals)
                    intflags.append(as_int)
            if not points:
                rec.count("skipped_singular")
                continue
            opts = CC.random_opts(rng, 0.2) if rng.random() < 0.5 else {}
            if force_long:
                opts = dict(opts, **rng.choice(({"positive_init_density": True}, {"positive_init_speed": True},
                                                 {"positive_init_density": True, "positive_init_speed": True})))
                rec.count("long_link_cases_with_initial_clamps")
            with_p = rng.random() < 0.5
            cand = CC.candidate_params(desc, pars)
            keys = rng.sample(cand, rng.randint(1, min(5, len(cand)))) if with_p else []
            # segments of different lengths: the length of a link given as one value per segment (all link
            # equations are element-wise; only where no merging / lane-drop term singles out a segment)
            seg_po = {}
            if rng.random() < 0.2:
                pars = dict(pars, delta=None, phi=None)
            if pars.get("delta") is None and pars.get("phi") is None and rng.random() < 0.7:
                fed_by_main = {o_["node"] for o_ in desc["origins"] if o_["kind"] == "main"}
                for l_ in desc["links"]:
                    if l_["N"] >= 2 and rng.random() < 0.6:
                        seg_po[(l_["id"], "L")] = np.array([round(l_["L"] * rng.uniform(0.5, 1.5), 3) for _s in range(l_["N"])])
                    if l_["N"] >= 2 and l_["up"] not in fed_by_main and rng.random() < 0.5:
                        # free-flow speed / critical density / exponent per segment as well
                        for a_ in rng.sample(("v_free", "a"), rng.randint(1, 2)):
                            if (l_["id"], a_) not in keys:
                                seg_po[(l_["id"], a_)] = np.array([round(l_[a_] * rng.uniform(0.85, 1.15), 3) for _s in range(l_["N"])])
                if seg_po:
                    rec.count("cases_with_per_segment_lengths")
            twins = []
            for vals, as_int in zip(points, intflags):
                if as_int:
                    rec.count("points_with_integer_arrays_on_the_numpy_side")
                try:
                    nxt, _ = CC.numpy_twin_next(M, desc, vals, pars, opts, scalar_shape=rng.choice(("vec1", "0d", "float")),
                                                int_dtype=as_int, param_override=(seg_po or None))
                except Exception as e:
                    rec.count("numpy_twin_failed")
                    rec.seen("numpy_twin_failed", repr(e)[:120])
                    nxt = None
                twins.append(nxt)
            for st in ("SX", "MX"):
                try:
                    case = CC.CompileCase(M, rng, desc, pars, st, keys, opts, own_symbols=(rng.random() < 0.6),
                                          fixed_from=points[0], fixed_prob=0.35, named_scalars_prob=0.3, scaled_prob=0.3,
                                          param_override=(seg_po or None))
                    if case.scaled:
                        rec.count("cases_with_inputs_given_as_expressions_of_user_symbols")
                    if case.fixed:
                        rec.count("cases_with_variables_supplied_as_numbers")
                except Exception as e:
                    rec.count("symbolic_step_failed")
                    rec.seen("symbolic_step_failed", repr(e)[:120])
                    continue
                tied_twin = {}
                for compact in (0, 1, 2):
                    more_out = rng.random() < 0.5
                    ctx0 = {"desc": desc, "pars": pars, "opts": opts, "sym_type": st, "compact": compact,
                            "more_out": more_out, "symbolic_parameters": [list(k_) for k_ in keys]}
                    try:
                        F = case.compile(compact, more_out)
                    except Exception as e:
                        rec.count("compile_failed")
                        rec.seen("compile_failed", repr(e)[:120])
                        continue
                    rec.seen("configs", (st, compact, more_out, bool(keys), bool(opts)))
                    for vals, twin in zip(points, twins):
                        if twin is None or ((case.fixed or case.tied) and vals is not points[0]):
                            continue  # the numbers baked into the function are those of the first point
                        if case.tied:
                            # one scalar drives all the limits of a link: the NumPy step is taken from those values
                            if "twin" not in tied_twin:
                                try:
                                    tied_twin["twin"], _b = CC.numpy_twin_next(M, desc, case.effective(vals), pars, opts, param_override=(seg_po or None))
                                except Exception:
                                    tied_twin["twin"] = None
                            twin = tied_twin["twin"]
                            if twin is None:
                                continue
                            rec.count("evaluations_with_one_symbol_driving_several_limits")
                        try:
                            xn, q, qo = case.call(F, vals, compact, more_out)
                        except Exception as e:
                            rec.violation(f"{PROP}:{st}:compact={compact}: compiled function cannot be evaluated with the documented layout ({type(e).__name__})",
                                          dict(ctx0, vals=vals, exception=repr(e)[:300]))
                            break
                        rec.count("function_evaluations")
                        ok = compare(rec, f"{st} compact={compact} params={'yes' if keys else 'no'} vs NumPy", desc, xn, twin,
                                     dict(ctx0, vals=vals), magnitudes(desc, vals, pars))
                        if ok and compact == 0:
                            # the same function evaluated by name: every value under the documented name of what it belongs to
                            try:
                                byn = CC.call_by_name(case, F, vals, more_out)
                            except Exception as e:
                                rec.violation(f"{PROP}:{st}:compact=0: the compiled function cannot be evaluated by the documented names ({type(e).__name__})",
                                              dict(ctx0, vals=vals, exception=repr(e)[:300]))
                                byn = None
                            if byn is not None:
                                rec.count("function_evaluations_by_name")
                                if keys:
                                    rec.count("function_evaluations_by_name_with_parameters")
                                ok = compare(rec, f"{st} compact=0 params={'yes' if keys else 'no'} evaluated by name vs NumPy", desc, byn[0], twin,
                                             dict(ctx0, vals=vals), magnitudes(desc, vals, pars))
                        if not case.tied:
                            per_type.setdefault((compact, id(vals)), {})[st] = xn
                        if rec.counters["function_evaluations"] == 5:
                            rec.sample({"desc": desc, "vals": vals, "sym_type": st, "compact": compact,
                                        "symbolic_parameters": [list(k_) for k_ in keys], "opts": opts})
                        if not ok:
                            break
            # a symbolic exponent evaluated at an exact whole number, at a state with a (transiently) negative density: the NumPy
            # step with the number 2 for `a` gives a finite x**2 there
            a_keys = [k_ for k_ in keys if k_[1] == "a" and (k_[0], "a") not in seg_po]
            if a_keys and not opts.get("positive_init_density"):
                import copy as _copy

                for st in ("SX", "MX"):
                    try:
                        case = CC.CompileCase(M, rng, desc, pars, st, keys, opts, own_symbols=True, prestep=False, param_override=(seg_po or None))
                        if any(isinstance(case.param_name.get(k_), tuple) for k_ in a_keys):
                            continue
                        d3, pv3 = _copy.deepcopy(desc), dict(case.pvalues)
                        vn = _copy.deepcopy(points[0])
                        for (lid_, _a) in a_keys:
                            val_ = float(rng.choice((2, 3, 1)))
                            for l_ in d3["links"]:
                                if l_["id"] == lid_:
                                    l_["a"] = val_
                            pv3[case.param_name[(lid_, "a")]] = val_
                            vn[lid_]["rho"][rng.randrange(len(vn[lid_]["rho"]))] = -rng.uniform(0.1, 2.0)
                        if any(isinstance(x_, float) and math.isinf(x_) for d_ in vn.values() for v_ in d_.values() for x_ in (v_ if isinstance(v_, list) else [v_])):
                            continue
                        twin3, _b = CC.numpy_twin_next(M, d3, vn, pars, opts, param_override=(seg_po or None))
                        compact = rng.choice((0, 1, 2))
                        F = case.compile(compact, False)
                        xn3 = case.call(F, vn, compact, False, pvalues=pv3)[0]
                    except Exception as e:
                        rec.count("integer_exponent_cases_failed")
                        rec.seen("integer_exponent_cases_failed", repr(e)[:120])
                        continue
                    rec.count("evaluations_with_a_symbolic_exponent_at_a_whole_number_and_a_negative_density")
                    compare(rec, f"{st} compact={compact} symbolic exponent at a whole number, negative density vs NumPy", d3, xn3, twin3,
                            {"desc": d3, "pars": pars, "vals": vn, "sym_type": st, "compact": compact}, magnitudes(d3, vn, pars))
            for (compact, _), d in per_type.items():
                if "SX" in d and "MX" in d:
                    rec.count("sx_mx_pairs")
                    compare(rec, f"SX vs MX compact={compact}", desc, d["SX"], d["MX"], {"desc": desc, "pars": pars})
        user_link_models(M, rec, rng, g, 40 if tier == "quick" else 400)
    finally:
        pass


def user_link_models(M, rec, rng, g, n_nets):
    """A user brings another fundamental diagram (README "Extensions": engines are meant to be derived): one links engine per
    family overriding the public primitive `Veq` with the same law (Underwood), plugged in through the `links` property of an
    Engine subclass.  The compiled function of the CasADi family equals the step of the NumPy family - also on speed-limited
    links, whatever law those use, as long as both families use the same."""
    import casadi as cs

    import sym_metanet.engines.casadi as EC
    import sym_metanet.engines.numpy as EN
    from vf import compiled as C, drive

    class LinksNP(EN.LinksEngine):
        @staticmethod
        def Veq(rho, v_free, rho_crit, a):
            return v_free * np.exp(-rho / rho_crit)

    class UserNP(EN.Engine):
        @property
        def links(self):
            return LinksNP

    class LinksCS(EC.LinksEngine):
        @staticmethod
        def Veq(rho, v_free, rho_crit, a):
            return v_free * cs.exp(-rho / rho_crit)

    class UserCS(EC.Engine):
        @property
        def links(self):
            return LinksCS

    for it in range(n_nets):
        desc = g.network(rng.choice(("chain", "ramp", "random", "merge", "bifurcation")), force=(("vsl",) if it % 3 else ()))[1]
        if any(o.get("user") or o.get("user_cap_flow") is not None for o in desc["origins"]) or any(l.get("user_cap") is not None or l.get("user_reorder") for l in desc["links"]):
            continue
        pars = g.pars()
        kw = drive.step_pars(pars)
        st = ("SX", "MX")[it % 2]
        compact = rng.choice((0, 1, 2))
        _, vals = g.values(desc, "interior", allow_inf=False)
        if R.is_singular(desc, vals):
            continue
        try:
            built = D.build(M, desc)
            eng = UserCS(st)
            built.net.step(engine=eng, **kw)
            F = eng.to_function(built.net, compact=compact, **kw)
            xn, _q, _qo = C.call_positional(F, desc, C.live_order(built), vals, compact, False)
            twin = D.build(M, desc)
            twin.net.step(init_conditions=drive.np_init(twin, vals, "vec1"), engine=UserNP(), **kw)
            nxt = drive.read_next(twin)
        except Exception as e:
            rec.violation(f"{PROP}:{st}: a network cannot be stepped / compiled with a user-defined link model ({type(e).__name__})",
                          {"desc": desc, "exception": repr(e)[:300]})
            continue
        rec.count("user_link_model_comparisons")
        if any(l.get("vsl") for l in desc["links"]):
            rec.count("user_link_model_comparisons_with_speed_limited_links")
        compare(rec, f"{st} compact={compact} with a user-defined link model in both engine families vs NumPy", desc, xn, nxt,
                {"desc": desc, "pars": pars, "vals": vals, "sym_type": st, "compact": compact}, magnitudes(desc, vals, pars))


def finish(M, rec, write=True):
    if not rec.violations:
        for r_ in rec.extra.get("anchor_reach", []):
            if r_["file"] == "engines/casadi.py":
                rec.gate(r_["executed_lines"] > 0, f"anchored code {r_['file']}:{r_['lines']} never executed")
        cf = rec.cover.get("configs", set())
        for st in ("SX", "MX"):
            for c in (0, 1, 2):
                rec.gate(any(s.startswith(f"('{st}', {c},") for s in cf), f"configuration {st}/compact={c} never evaluated")
        for kd in ("ideal", "main", "ramp", "simple", "dest-free", "dest-cong"):
            rec.gate(kd in rec.cover.get("element_kinds", set()), f"element kind {kd} never present")
        tot = rec.counters.get("function_evaluations", 0)
        rec.gate(rec.counters.get("numpy_twin_failed", 0) + rec.counters.get("symbolic_step_failed", 0)
                 + rec.counters.get("compile_failed", 0) <= 0.02 * max(tot, 1),
                 "too many cases could not be stepped/compiled (see C07)")
    return rec.finish(
        "function_evaluations",
        ["configs", "net_signatures_c03"] if False else ["configs", "element_kinds"],
        rule="random valid networks of all shape classes; per network 3 admissible non-singular points x {SX, MX} x compact 0/1/2 x "
        "random more_out x random positivity options x with/without 1..5 symbolic parameters (rho_crit, v_free, a, C, tau, eta, kappa, "
        "delta, phi, T); compiled function called positionally per the documented layout and compared with a NumPy twin network; "
        "distinct = (symbol type, compact, more_out, parameters?, options?) configurations + element kinds",
        assumptions=["arguments are laid out as documented (C04 checks the layout itself)"],
        write=write,
    )
