"""C14 — dynamics are invariant to construction order, names and turn-rate scaling.

Metamorphic relations between related networks built from one description and stepped
from the same values (per-element next states equal to 1e-12 relative, summation order may
differ): (a) random permutations of node/link/origin insertion and different API forms,
(b) random renamings incl. unusual and clashing names, (c) all turn rates at a node
multiplied by a common positive factor; plus the share of a node's inflow received by a
leaving link = its turn rate / sum over the leaving links (measured from inferred inflows).
"""
import copy
import math
import random

import numpy as np

from vf import compiled as C, desc as D, drive, gen as G, oracle as O, refmodel as R, workloads as W

PROP = "C14"
WATCHDOG_S = 3000
WEIRD = ("", " ", "x", "rho", "v_L0", "L0", "a+b", "q_o", "名前", "N1", "d", "w", "0", "None", "L 1", "x" * 40)


class _FixedK(random.Random):
    """Stands in for the call-form generator: always the same number of positional arguments (everything
    else it is asked for - shuffles, choices - behaves like an ordinary generator)."""

    def __init__(self, k):
        super().__init__(12345)
        self.k = k

    def random(self):
        return 0.0

    def randint(self, a, b):
        return max(a, min(b, self.k))


def step_next(M, desc, vals, pars, kind, ops=None, node_names=None, symvals=None):
    NE, CE = drive.engines(M)
    built = D.build(M, desc, ops, node_names=node_names)
    kw = drive.step_pars(pars)
    if kind == "numpy":
        built.net.step(init_conditions=drive.np_init(built, vals, "vec1"), engine=NE(), **kw)
        return drive.read_next(built), built
    symvals.clear()
    ic, syms = drive.sym_init(M, built, kind, symvals, vals)
    built.net.step(init_conditions=ic, engine=CE(kind), **kw)
    lay = D.var_layout(desc)
    exprs, index = [], []
    for eid, L in lay.items():
        for name, n in L["states"]:
            exprs.append(built.el(eid).next_states[name])
            index.append((eid, name))
    nums, _ = O.eval_exprs(exprs, kind, symvals)
    out = {}
    for (eid, name), v in zip(index, nums):
        out.setdefault(eid, {})[name] = v if name in ("rho", "v") else v[0]
    return out, built


def same(rec, rel, kind, desc, A, B, ctx):
    for eid, d in A.items():
        for name, v in d.items():
            va = v if isinstance(v, list) else [v]
            vb = B[eid][name] if isinstance(B[eid][name], list) else [B[eid][name]]
            for i, (x, y) in enumerate(zip(va, vb)):
                rec.count("scalars_compared")
                if math.isnan(x) and math.isnan(y):
                    continue
                if not (x == y or abs(x - y) <= 1e-11 * (1 + abs(x) + abs(y))):
                    el = "link" if any(l["id"] == eid for l in desc["links"]) else "origin"
                    rec.violation(f"{PROP}:{rel}:{kind}: {el}.{name}+ differs between the related networks",
                                  dict(ctx, element=eid, var=name, index=i, base=x, related=y))
                    return False
    return True


def link_order(built):
    rev = {id(v): k for k, v in built.links.items()}
    return [rev[id(l)] for _, _, l in built.net.links]


def one(M, rec, rng, g, desc, kind, symvals):
    pars = g.pars()
    ins, outs, org, dst = R.topology(desc)
    bif = [n_ for n_ in desc["nodes"] if len(outs[n_]) >= 2]
    if bif and rng.random() < 0.25:
        # turn rates copied from a table with five decimals: they add up to almost, not exactly, one
        desc = copy.deepcopy(desc)
        ins, outs, org, dst = R.topology(desc)
        for n_ in bif:
            ws = [rng.uniform(0.2, 1.0) for _l in outs[n_]]
            for l_, w_ in zip(outs[n_], ws):
                l_["beta"] = math.floor(w_ / sum(ws) * 1e5) / 1e5
        rec.count("cases_with_turn_rates_summing_to_almost_one")
    _, vals = g.values(desc, allow_inf=False)
    merges = [n for n in desc["nodes"] if len(ins[n]) >= 2]
    if merges and rng.random() < 0.2:
        # nothing flows into a merge: the model's merge speed is 0/0 there; whatever the library returns
        # (NaN today) must still not depend on the construction order, the names or the scaling
        n = rng.choice(merges)
        for l in ins[n]:
            vals[l["id"]]["rho" if rng.random() < 0.8 else "v"][-1] = 0.0
        rec.count("cases_with_zero_inflow_at_a_merge")
    if R.is_singular(desc, vals):
        # the relations are between two runs of the library, no reference is involved: a singular point
        # of the model is compared like any other (NaN == NaN)
        rec.count("singular_points_compared")
    ctx = {"desc": desc, "pars": pars, "vals": vals, "engine": kind}
    try:
        base, b0 = step_next(M, desc, vals, pars, kind, None, None, symvals)
    except Exception as e:
        rec.count("base_step_failed")
        rec.seen("failed", repr(e)[:100])
        return
    order0 = link_order(b0)
    # (a) construction order / API forms
    for _ in range(2):
        d2 = copy.deepcopy(desc)
        rng.shuffle(d2["nodes"])
        rng.shuffle(d2["links"])
        rng.shuffle(d2["origins"])
        rng.shuffle(d2["dests"])
        ops = D.random_ops(d2, rng)
        try:
            r, b = step_next(M, d2, vals, pars, kind, ops, None, symvals)
        except Exception as e:
            rec.violation(f"{PROP}:order:{kind}: a permuted construction of the same network cannot be stepped ({type(e).__name__})",
                          dict(ctx, ops=[str(o) for o in ops], exception=repr(e)[:300]))
            continue
        rec.count("relation_order")
        if link_order(b) != order0:
            rec.count("permutations_changing_link_order")
        same(rec, "construction order/API form", kind, desc, base, r, dict(ctx, ops=[str(o) for o in ops]))
    # (b) renaming
    mapping = {}
    pool = list(WEIRD)
    rng.shuffle(pool)
    clash = rng.random() < 0.5
    for grp in ("links", "origins", "dests"):
        for e in desc[grp]:
            mapping[e["id"]] = (rng.choice(pool) if clash else pool[len(mapping) % len(pool)] + str(len(mapping))) if rng.random() < 0.8 else e["name"]
    d3 = D.rename(desc, mapping)
    nn = {n: rng.choice(pool) for n in desc["nodes"]}
    try:
        r, _ = step_next(M, d3, vals, pars, kind, None, nn, symvals)
        rec.count("relation_rename")
        if clash:
            rec.count("renamings_with_clashing_names")
        same(rec, "renaming" + ("(clashing names)" if clash else ""), kind, desc, base, r, dict(ctx, names=mapping, node_names=nn))
    except Exception as e:
        rec.violation(f"{PROP}:renaming:{kind}: the renamed network cannot be stepped ({type(e).__name__})",
                      dict(ctx, names=mapping, exception=repr(e)[:300]))
    # (c) turn-rate scaling per node
    d4 = copy.deepcopy(desc)
    scaled = False
    for n in desc["nodes"]:
        if outs[n]:
            c = rng.choice((0.01, 0.5, 3.0, 17.0, 1.0 / sum(l["beta"] for l in outs[n])))
            for l in d4["links"]:
                if l["up"] == n:
                    l["beta"] = l["beta"] * c
            if len(outs[n]) >= 2:
                scaled = True
    try:
        r, _ = step_next(M, d4, vals, pars, kind, None, None, symvals)
        rec.count("relation_scaling")
        if scaled:
            rec.count("scalings_at_bifurcations")
        same(rec, "turn-rate scaling", kind, desc, base, r, ctx)
    except Exception as e:
        rec.violation(f"{PROP}:scaling:{kind}: the rescaled network cannot be stepped ({type(e).__name__})", dict(ctx, exception=repr(e)[:300]))
    # (c') the same network OBJECTS: turn rates rescaled in place after the base step, stepped again
    if kind == "numpy":
        try:
            NE, CE = drive.engines(M)
            for n in desc["nodes"]:
                if outs[n]:
                    c = rng.choice((0.2, 2.5, 9.0))
                    for l in outs[n]:
                        b0.links[l["id"]].turnrate = b0.links[l["id"]].turnrate * c
            b0.net.step(init_conditions=drive.np_init(b0, vals, "vec1"), engine=NE(), **drive.step_pars(pars))
            r = drive.read_next(b0)
            rec.count("relation_scaling_in_place")
            same(rec, "turn-rate scaling in place on an already stepped network", kind, desc, base, r, ctx)
        except Exception as e:
            rec.violation(f"{PROP}:scaling in place:{kind}: the rescaled network cannot be stepped ({type(e).__name__})",
                          dict(ctx, exception=repr(e)[:300]))
    # (c'') individual turn rates re-assigned in place (relative shares change) on the stepped objects vs a
    #       freshly built network with the same elements, connections and turn rates
    if kind == "numpy":
        try:
            d5 = copy.deepcopy(desc)
            NE, CE = drive.engines(M)
            for l in d5["links"]:
                l["beta"] = round(rng.uniform(0.1, 2.5), 3)
                b0.links[l["id"]].turnrate = l["beta"]
            b0.net.step(init_conditions=drive.np_init(b0, vals, "vec1"), engine=NE(), **drive.step_pars(pars))
            r_old = drive.read_next(b0)
            r_new, _ = step_next(M, d5, vals, pars, kind, None, None, symvals)
            rec.count("relation_reassigned_in_place")
            same(rec, "turn rates re-assigned in place on an already stepped network vs a fresh network", kind, desc, r_new, r_old, ctx)
        except Exception as e:
            rec.violation(f"{PROP}:re-assigned turn rates:{kind}: cannot be stepped ({type(e).__name__})", dict(ctx, exception=repr(e)[:300]))
    # (g) a few closed-loop steps in which the mappings the library returned (`link.next_states`) are fed
    #     straight back as that link's initial conditions: same trajectory whatever the construction order
    if kind == "numpy":
        NE, CE = drive.engines(M)

        def loop(built_):
            ic = drive.np_init(built_, vals, "vec1")
            for _k in range(3):
                built_.net.step(init_conditions=ic, engine=NE(), positive_next_speed=True, **drive.step_pars(pars))
                nxt_ = drive.read_next(built_)
                v2 = {k_: dict(d_) for k_, d_ in vals.items()}
                for eid_, d_ in nxt_.items():
                    for nm_, x_ in d_.items():
                        v2[eid_][nm_] = x_ if nm_ != "w" else max(0.0, x_)
                ic = drive.np_init(built_, v2, "vec1")
                for lid_, el_ in built_.links.items():
                    if set(el_.next_states) == set(ic[el_]):
                        ic[el_] = el_.next_states
            return drive.read_next(built_)

        try:
            d2 = copy.deepcopy(desc)
            for grp_ in ("nodes", "links", "origins", "dests"):
                rng.shuffle(d2[grp_])
            ra = loop(D.build(M, desc))
            rb = loop(D.build(M, d2, D.random_ops(d2, rng)))
            rec.count("relation_closed_loop_feedback")
            same(rec, "3 closed-loop steps feeding back the returned next_states mappings, other construction order", kind, desc, ra, rb, ctx)
        except Exception as e:
            rec.count("closed_loop_feedback_failed")
            rec.seen("failed", repr(e)[:100])
    # (f) the same network written with other call forms: every constructor / construction call with its
    #     arguments by keyword vs positionally in the documented order
    for form, frng in (("all arguments by keyword", _FixedK(0)), ("all arguments positional (documented order)", _FixedK(99))):
        saved = D.FORMS["rng"]
        D.FORMS["rng"] = frng
        try:
            r, _b = step_next(M, desc, vals, pars, kind, None, None, symvals)
            rec.count("relation_call_form")
            same(rec, "call form: " + form, kind, desc, base, r, ctx)
        except Exception as e:
            rec.violation(f"{PROP}:call form:{kind}: the network written with {form} cannot be built or stepped ({type(e).__name__})",
                          dict(ctx, exception=repr(e)[:300]))
        finally:
            D.FORMS["rng"] = saved
    # (e) a deep copy / a pickle round-trip of the (already stepped) network is a network with the same
    #     elements connected in the same way
    if kind == "numpy":
        import pickle

        how = rng.choice(("deepcopy", "pickle"))
        try:
            n2 = copy.deepcopy(b0.net) if how == "deepcopy" else pickle.loads(pickle.dumps(b0.net))
            pairs = list(zip(b0.net.elements, n2.elements))
            ic0 = drive.np_init(b0, vals, "vec1")
            ic2 = {c_: ic0[o_] for o_, c_ in pairs if o_ in ic0}
            NE, CE = drive.engines(M)
            n2.step(init_conditions=ic2, engine=NE(), **drive.step_pars(pars))
            b0.net.step(init_conditions=ic0, engine=NE(), **drive.step_pars(pars))
            rev = {id(v): k_ for k_, v in b0.elements.items()}
            r_copy = {}
            lay = D.var_layout(desc)
            for o_, c_ in pairs:
                eid = rev[id(o_)]
                if lay[eid]["states"]:
                    r_copy[eid] = {nm: ([float(t) for t in np.asarray(c_.next_states[nm], dtype=float).ravel()] if nm in ("rho", "v")
                                        else float(np.asarray(c_.next_states[nm], dtype=float).ravel()[0])) for nm, _n in lay[eid]["states"]}
            rec.count("relation_copy")
            rec.seen("copy_forms", how)
            same(rec, f"{how} of an already stepped network vs the network itself", kind, desc, drive.read_next(b0), r_copy, ctx)
        except Exception as e:
            rec.violation(f"{PROP}:{how}:{kind}: the copied network cannot be stepped ({type(e).__name__})", dict(ctx, exception=repr(e)[:300]))
    # (d) share = beta / sum(beta), measured from inferred inflows
    T = pars["T"]
    for n in desc["nodes"]:
        if len(outs[n]) >= 2:
            q0 = {}
            for m in outs[n]:
                kk = m["lam"] * m["L"] / T
                q0[m["id"]] = (base[m["id"]]["rho"][0] - vals[m["id"]]["rho"][0]) * kk + vals[m["id"]]["rho"][0] * vals[m["id"]]["v"][0] * m["lam"]
            tot = sum(q0.values())
            sb = sum(m["beta"] for m in outs[n])
            mag = sum(abs(x) for x in q0.values()) + sum((abs(base[m["id"]]["rho"][0]) + abs(vals[m["id"]]["rho"][0])) * m["lam"] * m["L"] / T for m in outs[n])
            if not math.isfinite(tot) or abs(tot) < 1e-6 or not math.isfinite(mag):
                continue
            for m in outs[n]:
                rec.count("share_checks")
                unit = all(abs(x["beta"] - 1.0) < 1e-12 for x in outs[n])
                if not unit and abs(sb - 1.0) > 1e-9:
                    rec.count("share_checks_nonunit_nonnormalised")
                if not (abs(q0[m["id"]] - m["beta"] / sb * tot) <= 1e-8 * (1 + mag)):
                    rec.violation(f"{PROP}:share:{kind}: inflow share of a leaving link != turn rate / sum of turn rates (n_in={'>=2' if len(ins[n]) >= 2 else len(ins[n])})",
                                  dict(ctx, node=n, link=m["id"], inflow=q0[m["id"]], expected=m["beta"] / sb * tot))
                    break
    if rec.counters.get("relation_order", 0) == 2:
        rec.sample({"desc": desc, "renaming": mapping, "node_names": nn})


def moved_link(M, rec, rng, g):
    """An off-ramp moved to the next junction on the live network (`net.G.remove_edge` + `add_link` of the same
    link object between other nodes, after a step / after the lookups were read): the re-wired network is the
    network that is built like that directly."""
    NE, CE = drive.engines(M)
    ids = ["n0", "n1", "n2", "n3", "n4"]

    def lk(i, up, dn, N):
        return {"id": f"L{i}", "name": f"L{i}", "up": up, "down": dn, "N": N, "lam": rng.choice((1, 2, 3)), "L": round(rng.uniform(0.5, 1.5), 2),
                "rho_max": 180.0, "rho_crit": round(rng.uniform(28, 38), 1), "v_free": round(rng.uniform(95, 120), 1),
                "a": round(rng.uniform(1.4, 2.6), 2), "beta": round(rng.uniform(0.1, 2.0), 2), "vsl": None, "alpha": None}

    def desc_with(ramp_from):
        return {"nodes": list(ids),
                "links": [lk0, lk1, lk2, dict(ramp, up=ramp_from)],
                "origins": [{"id": "O0", "name": "O0", "node": "n0", "kind": okind, "C": 2500.0 if okind in ("ramp", "simple") else None,
                             "eq": {"ramp": "out", "simple": "limited"}.get(okind)}],
                "dests": [{"id": "D0", "name": "D0", "node": "n3", "kind": "free"}, {"id": "D1", "name": "D1", "node": "n4", "kind": "cong"}]}

    okind = rng.choice(("ideal", "main", "ramp"))
    lk0, lk1, lk2 = lk(0, "n0", "n1", rng.choice((1, 2))), lk(1, "n1", "n2", rng.choice((1, 2, 3))), lk(2, "n2", "n3", rng.choice((1, 2)))
    ramp = lk(3, "n1", "n4", rng.choice((1, 2)))
    before, after = desc_with("n1"), desc_with("n2")
    pars = g.pars()
    kw = drive.step_pars(pars)
    _, v0 = g.values(before, "interior", allow_inf=False)
    _, vals = g.values(after, "interior", allow_inf=False)
    try:
        b = D.build(M, before)
        if rng.random() < 0.6:
            b.net.step(init_conditions=drive.np_init(b, v0, "vec1"), engine=NE(), **kw)
        else:
            _ = b.net.nodes_by_link, b.net.links_by_name, b.net.nodes_by_name
        rng.choice((b.net.G, b.net.graph)).remove_edge(b.nodes["n1"], b.nodes["n4"])
        b.net.add_link(b.nodes["n2"], b.links["L3"], b.nodes["n4"])
        b.desc = after
        b.net.step(init_conditions=drive.np_init(b, vals, "vec1"), engine=NE(), **kw)
        moved = drive.read_next(b)
        f = D.build(M, after, D.random_ops(after, rng))
        f.net.step(init_conditions=drive.np_init(f, vals, "vec1"), engine=NE(), **kw)
        rec.count("relation_moved_link")
        same(rec, "a link moved to other nodes on the live network vs the network built like that directly", "numpy", after, drive.read_next(f), moved,
             {"desc": after, "vals": vals, "pars": pars})
    except Exception as e:
        rec.violation(f"{PROP}:moved link:numpy: the re-wired network cannot be stepped ({type(e).__name__})", {"exception": repr(e)[:300]})


def networks_sharing_nodes(M, rec, rng, n_pairs):
    """A whole network and a corridor made of the same objects, stepped alternately (vf.workloads.shared_object_networks):
    each step equals the step of a twin built from fresh objects - the split at a junction follows the turn rates of the
    links leaving it IN THE NETWORK THAT IS STEPPED."""
    NE, CE = drive.engines(M)

    def after_step(case, built, f):
        got = drive.read_next(built)
        f.net.step(init_conditions=drive.np_init(f, case["vals"], "vec1"), engine=NE(), **drive.step_pars(case["pars"]))
        rec.count("relation_networks_sharing_nodes")
        same(rec, f"a network sharing its nodes with another live network ({case['network']}) vs a twin of fresh objects", "numpy", case["desc"],
             drive.read_next(f), got, {"desc": case["desc"], "vals": case["vals"], "pars": case["pars"]})

    W.shared_object_networks(M, rec, rng, n_pairs, after_step=after_step)


def ramp_attached_later(M, rec, rng, g):
    """"What if we open an on-ramp here": a network is stepped, an on-ramp is attached to an interior node through the API
    (nothing else is built afterwards), and it is stepped again - like the network that had the ramp from the start."""
    import copy

    NE, CE = drive.engines(M)
    desc = copy.deepcopy(g.network(rng.choice(("chain", "chain", "bifurcation", "random", "merge")))[1])
    ins, outs, org, dst = R.topology(desc)
    cand = [n_ for n_ in desc["nodes"] if n_ not in org and len(ins[n_]) >= 1 and len(outs[n_]) == 1]
    if not cand:
        return
    n_ = rng.choice(cand)
    okind = rng.choice(("ramp", "simple"))
    x = {"id": "Olater", "name": "Olater", "node": n_, "kind": okind, "C": round(rng.uniform(1200.0, 4500.0), 1),
         "eq": {"ramp": rng.choice(("in", "out")), "simple": "limited"}[okind]}
    after = copy.deepcopy(desc)
    after["origins"].append(x)
    pars = g.pars()
    kw = drive.step_pars(pars)
    _, v0 = g.values(desc, "interior", allow_inf=False)
    _, vals = g.values(after, "interior", allow_inf=False)
    vals[x["id"]].update(d=rng.uniform(800.0, 2500.0), w=rng.uniform(0.0, 30.0))
    if "r" in vals[x["id"]]:
        vals[x["id"]]["r"] = rng.uniform(0.5, 1.0)
    try:
        b = D.build(M, desc)
        how = rng.choice(("step", "element loop", "what-if"))
        if how == "step":
            b.net.step(init_conditions=drive.np_init(b, v0, "vec1"), engine=NE(), **kw)
        elif how == "element loop":
            drive.do_step(b.net, rng.choice(drive.VIAS[1:]), rng=rng, init_conditions=drive.np_init(b, v0, "vec1"), engine=NE(), **kw)
        else:
            b.net.step(init_conditions=drive.np_init(b, v0, "vec1"), engine=NE(), **kw)
            for l_ in b.links.values():
                l_.step_dynamics(b.net, engine=NE(), **kw)
        _n, _l, origins, _d = D.make_objects(M, {"nodes": [], "links": [], "origins": [x], "dests": []})
        b.origins[x["id"]] = origins[x["id"]]
        b.net.add_origin(origins[x["id"]], b.nodes[n_])
        b.desc = after
        b.net.step(init_conditions=drive.np_init(b, vals, "vec1"), engine=NE(), **kw)
        later = drive.read_next(b)
        f = D.build(M, after, D.random_ops(after, rng))
        f.net.step(init_conditions=drive.np_init(f, vals, "vec1"), engine=NE(), **kw)
        rec.count("relation_ramp_attached_later")
        same(rec, "an on-ramp attached to the stepped network vs the network built with it", "numpy", after, drive.read_next(f), later,
             {"desc": after, "vals": vals, "pars": pars, "earlier": how})
    except Exception as e:
        rec.violation(f"{PROP}:ramp attached later:numpy: the extended network cannot be stepped ({type(e).__name__})", {"exception": repr(e)[:300]})


def symbolic_turn_rates(M, rec, rng, g, st):
    """Turn rates that are SYMBOLS declared as function parameters (`turnrate : float or variable`; route choice as a
    decision variable of an optimisation): the compiled function evaluated at (b_1..b_k) and at c * (b_1..b_k) gives the same
    next states, and the ones of the NumPy step with those numbers."""
    from vf import compilecases as CC

    desc = copy.deepcopy(g.network(rng.choice(("bifurcation", "crossing", "random", "bifurcation")))[1])
    ins, outs, org, dst = R.topology(desc)
    split = [n_ for n_ in desc["nodes"] if len(outs[n_]) >= 2]
    if not split or any(l.get("user_cap") is not None or l.get("user_reorder") for l in desc["links"]):
        return
    keys = [(l_["id"], "beta") for n_ in split for l_ in outs[n_]]
    pars = g.pars()
    _, vals = g.values(desc, "interior", allow_inf=False)
    if R.is_singular(desc, vals):
        return
    try:
        case = CC.CompileCase(M, rng, desc, pars, st, keys, {}, own_symbols=(rng.random() < 0.5), prestep=False)
        compact = rng.choice((0, 1, 2))
        F = case.compile(compact, False)
        base = case.call(F, vals, compact, False)[0]
        c_ = rng.choice((0.01, 0.5, 3.0, 17.0))
        pv = {k_: ([x_ * c_ for x_ in v_] if isinstance(v_, list) else v_ * c_) for k_, v_ in case.pvalues.items()}
        scaled = case.call(F, vals, compact, False, pvalues=pv)[0]
        twin, _b = CC.numpy_twin_next(M, desc, vals, pars)
    except Exception as e:
        rec.violation(f"{PROP}:symbolic turn rates:{st}: a network whose turn rates are declared parameters cannot be stepped / compiled / evaluated ({type(e).__name__})",
                      {"desc": desc, "exception": repr(e)[:300]})
        return
    rec.count("relation_symbolic_turn_rates")
    ctx = {"desc": desc, "vals": vals, "pars": pars, "engine": st, "compact": compact, "scaled_by": c_}
    same(rec, "symbolic turn rates evaluated at b and at c * b", st, desc, base, scaled, ctx)
    close_(rec, "symbolic turn rates evaluated at the numbers vs the NumPy step with those numbers", st, desc, twin, base, ctx)


def close_(rec, rel, kind, desc, A, B, ctx):
    for eid, d in A.items():
        for name, v in d.items():
            va = v if isinstance(v, list) else [v]
            vb = B[eid][name] if isinstance(B[eid][name], list) else [B[eid][name]]
            for i, (x, y) in enumerate(zip(va, vb)):
                rec.count("scalars_compared")
                if math.isnan(x) and math.isnan(y):
                    continue
                if not (x == y or abs(x - y) <= 1e-9 * (1 + abs(x) + abs(y))):
                    rec.violation(f"{PROP}:{rel}:{kind}: {name}+ differs", dict(ctx, element=eid, var=name, index=i, base=x, related=y))
                    return


def turning_counts_of_a_narrow_type(M, rec, rng, reps):
    """Scripted in every run: turn rates given as turning COUNTS of a narrow NumPy integer type whose total at the node does
    not fit the type (uint8 180:120, int16 21000:14000 ...): the next states are those of the halved counts (which do fit) and
    of the same numbers given as floats."""
    NE, CE = drive.engines(M)
    for it in range(reps):
        dt, lo, hi = ((np.uint8, 130, 250), (np.int8, 70, 120), (np.uint16, 33000, 60000), (np.int16, 17000, 30000))[it % 4]
        k_ = rng.choice((2, 3))
        counts = [2 * rng.randint(lo // 2, hi // 2) for _ in range(k_)]

        def run(rates):
            mk = lambda nm, N_, beta: M.Link(N_, 2, 1.0, 180.0, 33.5, 102.0, 1.867, beta, nm)  # noqa: E731
            J = M.Node(name="J")
            up = mk("U", 2, 1.0)
            net = M.Network().add_path((M.Node(name="S"), up, J), origin=M.MainstreamOrigin(name="O"))
            outs_ = []
            for j, b_ in enumerate(rates):
                l_ = mk(f"B{j}", 1, b_)
                outs_.append(l_)
                net.add_path((J, l_, M.Node(name=f"X{j}")), destination=M.Destination(name=f"D{j}"))
            ic = {up: {"rho": np.array([30.0, 42.0]), "v": np.array([80.0, 66.0])}}
            for j, l_ in enumerate(outs_):
                ic[l_] = {"rho": np.array([20.0 + 3 * j]), "v": np.array([75.0 - 4 * j])}
            ic[next(iter(net.origins))] = {"w": np.array([5.0]), "d": np.array([2500.0]), "v_ctrl": np.array([300.0])}
            net.step(init_conditions=ic, engine=NE(), T=10 / 3600, tau=18 / 3600, eta=60.0, kappa=40.0)
            return [float(np.asarray(l_.next_states["rho"]).ravel()[0]) for l_ in outs_]

        try:
            with np.errstate(all="ignore"):
                a = run([dt(c_) for c_ in counts] if it % 8 < 4 else [np.array([c_], dtype=dt) for c_ in counts])
                b = run([dt(c_ // 2) for c_ in counts])
                c = run([float(c_) for c_ in counts])
        except Exception as e:
            rec.violation(f"{PROP}:turning counts of a narrow integer type:numpy: stepping raised {type(e).__name__}", {"counts": counts, "dtype": dt.__name__, "exception": repr(e)[:300]})
            continue
        rec.count("relation_turning_counts_of_a_narrow_type")
        if not all(abs(x - y) <= 1e-9 * (1 + abs(y)) for x, y in zip(a, c)) or not all(abs(x - y) <= 1e-9 * (1 + abs(y)) for x, y in zip(b, c)):
            rec.violation(f"{PROP}:turn-rate scaling:numpy: turning counts of a narrow integer type whose total does not fit the type give other shares than the same numbers as floats / halved",
                          {"counts": counts, "dtype": dt.__name__, "with_counts": a, "with_halved_counts": b, "with_floats": c})


def state_dependent_turn_rates(M, rec, rng, g):
    """A user link kind whose turn rate is a property of its current state (route choice reacting to traffic):
    the share of the node's inflow a leaving link receives is its CURRENT turn rate over the sum of the current
    ones, through Network.step as through the element-level calls."""
    from vf import userkinds as UK

    NE, CE = drive.engines(M)
    mk = lambda cls, N, lam, beta, nm: cls(N, lam, 1.0, 180.0, 33.5, 102.0, 1.867, beta, nm)  # noqa: E731
    n = [M.Node(name=f"N{i}") for i in range(4)]
    up = mk(M.Link, 2, 3, 1.0, "up")
    k_ = rng.choice((2, 3))
    outs = [mk(UK.AdaptiveLink, rng.choice((1, 2)), rng.choice((1, 2)), round(rng.uniform(0.2, 2.0), 2), f"b{i}") for i in range(k_)]
    net = M.Network().add_path((n[0], up, n[1]), origin=M.MainstreamOrigin(name="O"))
    for i, l in enumerate(outs):
        net.add_path((n[1], l, M.Node(name=f"X{i}")), destination=M.Destination(name=f"D{i}"))
    T = 10 / 3600
    kw = dict(T=T, tau=18 / 3600, eta=60.0, kappa=40.0)
    ic = {up: {"rho": np.array([rng.uniform(15, 40), rng.uniform(15, 40)]), "v": np.array([rng.uniform(60, 100), rng.uniform(60, 100)])}}
    for l in outs:
        ic[l] = {"rho": np.array([rng.uniform(5, 60) for _ in range(l.N)]), "v": np.array([rng.uniform(40, 100) for _ in range(l.N)])}
    org = next(iter(net.origins))
    ic[org] = {"w": np.array([5.0]), "d": np.array([3000.0]), "v_ctrl": np.array([200.0])}
    via = rng.choice(drive.VIAS)
    for _step in range(2):  # the second step starts from other densities: the rates have moved
        try:
            drive.do_step(net, via, rng=rng, init_conditions=ic, engine=NE(), **kw)
        except Exception as e:
            rec.violation(f"{PROP}:state-dependent turn rates: stepping raised {type(e).__name__}", {"exception": repr(e)[:300]})
            return
        Q = float(ic[up]["rho"][-1] * ic[up]["v"][-1] * up.lam)
        betas = [float(l._base_rate * (1.0 + 0.02 * ic[l]["rho"][0])) for l in outs]
        rec.count("state_dependent_turn_rate_checks")
        for l, b in zip(outs, betas):
            q_in = float((np.asarray(l.next_states["rho"])[0] - ic[l]["rho"][0]) * l.lam * l.L / T + ic[l]["rho"][0] * ic[l]["v"][0] * l.lam)
            exp = b / sum(betas) * Q
            if not abs(q_in - exp) <= 1e-7 * (1 + abs(exp) + abs(Q)):
                rec.violation(f"{PROP}:share:numpy: with state-dependent turn rates a leaving link does not receive its current turn rate / sum of the current ones",
                              {"stepped_via": via, "link": l.name, "inflow": q_in, "expected": exp, "current_turn_rates": betas})
                return
        for l in outs + [up]:
            ic[l] = {"rho": np.asarray(l.next_states["rho"], dtype=float) * rng.uniform(0.6, 1.4), "v": np.maximum(np.asarray(l.next_states["v"], dtype=float), 5.0)}


def run(M, rec, tier, seed, k, n):
    np.seterr(all="ignore")
    rng = random.Random(seed * 1000 + k + 1400)
    g = G.NetGen(rng)
    symvals = O.SymVals(random.Random(9))
    sh = W.shapes_cycle()
    for it in range(200 if tier == "quick" else 3000):
        shape = next(sh)
        desc = g.all_kinds_network() if it % 6 == 0 else g.network(shape)[1]
        rec.seen("net_signatures", D.signature(desc))
        kind = ("numpy", "numpy", "numpy", "SX", "MX")[it % 5]
        rec.seen("engines", kind)
        one(M, rec, rng, g, desc, kind, symvals)
        if it % 4 == 1:
            moved_link(M, rec, rng, g)
        if it % 4 == 3:
            state_dependent_turn_rates(M, rec, rng, g)
        if it % 4 == 2:
            ramp_attached_later(M, rec, rng, g)
        if it % 4 == 0:
            symbolic_turn_rates(M, rec, rng, g, ("SX", "MX")[(it // 4) % 2])
    networks_sharing_nodes(M, rec, rng, 40 if tier == "quick" else 400)
    W.preallocated_buffers(M, rec, rng, PROP, 24 if tier == "quick" else 240, edit_turnrates=True, what="a network whose turn rates (NumPy arrays) are rewritten in place")
    W.complex_step_turn_rates(M, rec, rng, PROP, 30 if tier == "quick" else 300, "shares")
    turning_counts_of_a_narrow_type(M, rec, rng, 16 if tier == "quick" else 160)


def finish(M, rec, write=True):
    if not rec.violations:
        rec.gate(rec.counters.get("share_checks_nonunit_nonnormalised", 0) > 0, "no bifurcation with non-unit, non-normalised turn rates")
        rec.gate(rec.counters.get("permutations_changing_link_order", 0) > 0, "no permutation changed the order of net.links")
        rec.gate(rec.counters.get("scalings_at_bifurcations", 0) > 0, "no scaling at a bifurcation")
        rec.gate(rec.counters.get("renamings_with_clashing_names", 0) > 0, "no renaming with clashing names")
        rec.gate(rec.counters.get("base_step_failed", 0) <= 0.02 * max(1, rec.counters.get("relation_order", 0)), "too many base steps failed")
    return rec.finish(
        ["relation_order", "relation_rename", "relation_scaling", "relation_scaling_in_place", "share_checks"],
        ["net_signatures"],
        rule="random valid networks; per network: 2 random permutations of node/link/origin/destination insertion with mixed API forms "
        "(add_link, add_links, add_path, implicit nodes), one renaming (unusual names; half of them clashing), one per-node turn-rate "
        "scaling (factors 0.01..17 and normalisation), share measurement at every bifurcation; NumPy, SX, MX; distinct = network signatures",
        assumptions=["renamed networks are compared through step (names do not enter the values); compiled functions are only compared "
                     "positionally elsewhere (C04)"],
        write=write,
    )
