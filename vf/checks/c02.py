"""C02 — vehicles are conserved by every step, network-wide and at every node.

Oracle-free: the balance is computed from the inputs and outputs of the step only
(inflow of a link inferred from its own first-segment density update, origin flow
inferred from the queue update).  Observed in situ on ``Network.step`` (NumPy, SX, MX),
on compiled functions at all compactness levels, and cumulatively over closed-loop
simulations.
"""
import math
import random

import numpy as np

from vf import compiled as C, compilecases as CC, desc as D, drive, gen as G, monitors, oracle as O, refmodel as R, workloads as W

PROP = "C02"
WATCHDOG_S = 3000


def decide(ob, rec):
    if not O.admissible(ob):
        rec.count("skipped_inadmissible_values")
        return
    if R.is_singular(ob.desc, ob.vals):
        rec.count("skipped_singular")
        return
    O.conservation(ob, rec, PROP)
    rec.seen("engines", ob.kind)
    rec.seen("sig_x_engine", (ob.kind, D.signature(ob.desc)))
    if D.has_cycle(ob.desc):
        rec.seen("node_classes", "cycle")


def compiled_conservation(M, rec, rng, n_nets, mon=None):
    """Balance from the inputs and outputs (x+, q, q_o) of to_function(more_out=True)."""
    import casadi as cs

    import sym_metanet.engines.casadi as EC

    NE, CE = drive.engines(M)

    # a user-defined engine with its OWN link-flow primitive (flows counted in passenger-car equivalents and never negative):
    # whatever a link says leaves it, the node passes on
    class LinksPCE(EC.LinksEngine):
        @staticmethod
        def get_flow(rho, v, lanes):
            return 0.9 * cs.fmax(0, rho * v * lanes)

    class EnginePCE(EC.Engine):
        @property
        def links(self):
            return LinksPCE

    g = G.NetGen(rng)
    sh = W.shapes_cycle()
    for it_ in range(n_nets):
        shp, desc, built = W.make_net(M, g, next(sh), rng)
        st = rng.choice(("SX", "MX"))
        own_flow = it_ % 4 == 1 and not any(l.get("user_cap") is not None or l.get("user_reorder") for l in desc["links"])
        pars = g.pars()
        # numeric parameters, or some link / ramp / model parameters symbolic and declared as function
        # parameters (named '<attribute>_<element>' or by the bare attribute name), evaluated at other
        # values than those of the description
        keys = []
        if rng.random() < 0.5:
            cand = CC.candidate_params(desc, pars)
            keys = rng.sample(cand, rng.randint(1, min(5, len(cand))))
        try:
            # (the in-situ step monitor knows the stock link flow only: this case is decided from the function's outputs)
            if own_flow and mon is not None:
                mon.enabled = False
            try:
                case = CC.CompileCase(M, rng, desc, pars, st, keys, own_symbols=(rng.random() < 0.5), engine_factory=(EnginePCE if own_flow else None))
            finally:
                if mon is not None:
                    mon.enabled = True
            if own_flow:
                rec.count("compiled_cases_with_a_user_engine_that_has_its_own_link_flow")
        except Exception:
            rec.count("compiled_step_exceptions")
            continue
        pv = dict(case.pvalues)
        for nm in pv:
            if rng.random() < 0.6:
                pv[nm] = pv[nm] * rng.choice((0.8, 0.9, 1.15))
        pars_eff = dict(pars)
        if ("#", "T") in case.param_name:
            pars_eff["T"] = pv[case.param_name[("#", "T")]]
        if keys:
            rec.count("compiled_cases_with_symbolic_parameters")
            rec.seen("compiled_parameter_names", tuple(sorted(case.parameters))[:3])
        for compact in (0, 1, 2):
            try:
                F = case.compile(compact, True)
            except Exception:
                rec.count("compile_exceptions")
                continue
            _, vals = g.values(desc, allow_inf=False)
            if R.is_singular(desc, vals):
                rec.count("skipped_singular")
                continue
            order = case.order
            lay = D.var_layout(desc)
            try:
                outs = case.call(F, vals, compact, True, pvalues=pv)
            except Exception as e:
                rec.count("compiled_call_failed")
                rec.seen("compiled_call_failed", repr(e)[:100])
                continue
            xn, q, qo = outs
            rec.count("compiled_evaluations")
            _balance_compiled(rec, desc, order, lay, vals, xn, q, qo, pars_eff, st, compact,
                              extra={"symbolic_parameters": {k_: pv[k_] for k_ in case.parameters}} if keys else None)


def _balance_compiled(rec, desc, order, lay, vals, xn, q, qo, pars, st, compact, extra=None):
    T = pars["T"]
    ins, outs, org, dst = R.topology(desc)
    bad = False
    for d_ in xn.values():
        for v in d_.values():
            if any(not math.isfinite(t) for t in v):
                bad = True
    if bad:
        rec.count("skipped_nonfinite_output")
        return

    def c(n):
        return ">=2" if n >= 2 else str(n)

    for n in desc["nodes"]:
        if not outs[n]:
            continue
        lhs = 0.0
        mag = 0.0
        for m in outs[n]:
            k = m["lam"] * m["L"] / T
            lhs += (xn[m["id"]]["rho"][0] - vals[m["id"]]["rho"][0]) * k + q[m["id"]][0]
            mag += (abs(xn[m["id"]]["rho"][0]) + abs(vals[m["id"]]["rho"][0])) * k + abs(q[m["id"]][0])
        rhs = sum(q[m["id"]][-1] for m in ins[n])
        mag += sum(abs(q[m["id"]][-1]) for m in ins[n])
        o = org.get(n)
        if o is not None:
            rhs += qo[o["id"]]
            mag += abs(qo[o["id"]])
        rec.count("compiled_node_balances")
        if not O.close(lhs, rhs, mag, rel=1e-8):
            rec.violation(
                f"{PROP}:compiled(compact={min(compact, 2)}):node(n_in={c(len(ins[n]))},n_out={c(len(outs[n]))},"
                f"origin={o['kind'] if o else 'none'}): reported flows and x+ do not balance",
                dict({"engine": st, "compact": compact, "desc": desc, "vals": vals, "pars": pars, "node": n,
                      "x_next": xn, "q": q, "q_o": qo, "lhs": lhs, "rhs": rhs}, **(extra or {})),
            )
    # queues: w+ = w + T (d - q_o)
    for o in desc["origins"]:
        if o["kind"] == "ideal":
            continue
        w, dmd = vals[o["id"]]["w"], vals[o["id"]]["d"]
        exp = w + T * (dmd - qo[o["id"]])
        got = xn[o["id"]]["w"][0]
        rec.count("compiled_queue_balances")
        if not O.close(exp, got, abs(w) + T * (abs(dmd) + abs(qo[o["id"]]))):
            rec.violation(
                f"{PROP}:compiled(compact={min(compact, 2)}):origin({o['kind']}): w+ != w + T (d - reported q_o)",
                dict({"engine": st, "compact": compact, "desc": desc, "vals": vals, "pars": pars,
                      "origin": o["id"], "w_next": got, "expected": exp, "q_o": qo[o["id"]]}, **(extra or {})),
            )


def run(M, rec, tier, seed, k, n):
    np.seterr(all="ignore")
    rng = random.Random(seed * 1000 + k + 200)
    symvals = O.SymVals(random.Random(seed * 1000 + k + 207))
    mon = monitors.StepMonitor(M, rec, symvals, deciders=[decide]).install()
    cum = {}

    def before(case, built):
        cum["case"] = case

    # cumulative balance over closed-loop simulations
    sim = {}

    def on_step(kk, desc, vals, nxt, pars, built, info):
        ins, outs, org, dst = R.topology(desc)
        T = pars["T"]
        if kk == 0 or sim.get("desc") is not desc:
            sim.clear()
            sim["desc"] = desc
            sim["start"] = sum(sum(vals[l["id"]]["rho"]) * l["lam"] * l["L"] for l in desc["links"]) + sum(
                vals[o["id"]]["w"] for o in desc["origins"] if o["kind"] != "ideal")
            sim["ext"] = 0.0
            sim["mag"] = abs(sim["start"])
        for o in desc["origins"]:
            if o["kind"] == "ideal":
                lk = outs[o["node"]][0]
                f = vals[lk["id"]]["rho"][0] * vals[lk["id"]]["v"][0] * lk["lam"]
                if lk.get("user_cap") is not None:
                    f = min(f, lk["user_cap"])
                if o.get("user_q") is not None:
                    f = o["user_q"]
            else:
                f = vals[o["id"]]["d"]
            sim["ext"] += T * f
            sim["mag"] += T * abs(f)
        for d_ in desc["dests"]:
            for m in ins[d_["node"]]:
                f = vals[m["id"]]["rho"][-1] * vals[m["id"]]["v"][-1] * m["lam"]
                if m.get("user_cap") is not None:
                    f = min(f, m["user_cap"])
                sim["ext"] -= T * f
                sim["mag"] += T * abs(f)
        now = sum(sum(nxt[l["id"]]["rho"]) * l["lam"] * l["L"] for l in desc["links"]) + sum(
            nxt[o["id"]]["w"] for o in desc["origins"] if o["kind"] != "ideal")
        if not math.isfinite(now):
            return
        rec.count("cumulative_balances")
        # the closed loop feeds back max(0, w); what that adds is accounted for in info
        if not O.close(now - sim["start"], sim["ext"] + info["clamped"], sim["mag"] + info["clamped"], rel=1e-8):
            rec.violation(f"{PROP}:numpy:cumulative vehicle balance broken over a closed-loop simulation",
                          {"desc": desc, "step": kk, "delta": now - sim["start"], "external": sim["ext"]})

    W.USER_KINDS["prob"] = 0.12  # user-defined origin / link kinds conserve vehicles too
    W.TURNING_COUNTS["prob"] = 0.3  # raw small-integer turning counts as turn rates: shares still sum to one
    from vf import batched

    # the node split conserves vehicles column by column when evaluated for K instants at once
    batched.batched_primitives(M, rec, rng, PROP, 300 if tier == "quick" else 3000, which=("get_upstream_flow",))
    try:
        if tier == "quick":
            W.numpy_steps(M, rec, rng, 500, draws=3, before_case=before)
            W.symbolic_steps(M, rec, rng, symvals, 40, points=2, before_case=before)
            compiled_conservation(M, rec, rng, 60, mon)
            W.closed_loop(M, rec, rng, 7, 90, on_step=on_step)
            W.inplace_pairs(M, rec, rng, 40, before_case=before)
            draining_segments_in_the_callers_loop(M, rec, rng, 18, before)
            W.small_valid_steps(M, rec, rng, 2, before_case=before, seed=seed)
        else:
            W.numpy_steps(M, rec, rng, 6000, draws=3, before_case=before)
            W.symbolic_steps(M, rec, rng, symvals, 250, points=3, before_case=before)
            compiled_conservation(M, rec, rng, 500, mon)
            W.closed_loop(M, rec, rng, 14, 180, on_step=on_step)
            W.inplace_pairs(M, rec, rng, 300, before_case=before)
            draining_segments_in_the_callers_loop(M, rec, rng, 90, before)
            W.small_valid_steps(M, rec, rng, 3, k, n, before_case=before, seed=seed)
            # every valid 4-node topology (49 551 digraphs) with the reduced role set (253 151 networks)
            W.small_valid_steps(M, rec, rng, 4, k, n, before_case=before, seed=seed + 1, kinds_full=False, only_n=4)
    finally:
        W.USER_KINDS["prob"] = 0.0
        W.TURNING_COUNTS["prob"] = 0.08
        mon.uninstall()
    W.complex_step_turn_rates(M, rec, rng, PROP, 30 if tier == "quick" else 300, "conservation")
    if k == 0:
        W.repo_tests(rec, [PROP])


def draining_segments_in_the_callers_loop(M, rec, rng, reps, before):
    """Scripted in every run: short segments (250 m) that drain faster than they fill (T v / L > 1, next to an almost empty
    upstream segment), stepped by the CALLER'S own per-element loop without any option: the un-clamped next density is negative
    there and vehicles are conserved all the same (the in-situ monitor decides the balance)."""
    NE, CE = drive.engines(M)
    for it in range(reps):
        N_ = rng.choice((3, 4))
        desc = {"nodes": ["n0", "n1", "n2"],
                "links": [{"id": "L0", "name": "L0", "up": "n0", "down": "n1", "N": N_, "lam": 2, "L": 0.25, "rho_max": 180.0, "rho_crit": 33.5, "v_free": 110.0, "a": 1.867,
                           "beta": 1.0, "vsl": None, "alpha": None},
                          {"id": "L1", "name": "L1", "up": "n1", "down": "n2", "N": 2, "lam": 2, "L": 0.25, "rho_max": 180.0, "rho_crit": 33.5, "v_free": 110.0, "a": 1.867,
                           "beta": 1.0, "vsl": None, "alpha": None}],
                "origins": [{"id": "O0", "name": "O0", "node": "n0", "kind": ("main", "ramp", "ideal")[it % 3], "C": 2000.0 if it % 3 == 1 else None, "eq": "out" if it % 3 == 1 else None}],
                "dests": [{"id": "D0", "name": "D0", "node": "n2", "kind": "free"}]}
        pars = {"T": 10 / 3600, "tau": 18 / 3600, "eta": 60.0, "kappa": 40.0, "delta": None, "phi": None}
        g = G.NetGen(rng)
        _, vals = g.values(desc, "interior", allow_inf=False)
        k_ = rng.randrange(1, N_)
        vals["L0"]["rho"] = [rng.uniform(2.0, 6.0) for _ in range(N_)]
        vals["L0"]["rho"][k_] = rng.uniform(50.0, 80.0)
        vals["L0"]["v"] = [rng.uniform(100.0, 110.0) for _ in range(N_)]
        built = D.build(M, desc)
        rec.count("caller_driven_steps_with_a_draining_segment")
        eng = NE()
        T = pars["T"]
        kw = {k_: v_ for k_, v_ in pars.items() if v_ is not None}
        try:
            ic = drive.np_init(built, vals, "vec1")
            for el in built.net.elements:      # the caller's own loop: no option is passed anywhere
                el.init_vars(init_conditions=ic.get(el), engine=eng)
            for o_ in built.net.origins:
                o_.step(net=built.net, engine=eng, **kw)
            for _u, _w, l_ in built.net.links:
                l_.step(net=built.net, engine=eng, **kw)
            nxt = drive.read_next(built)
        except Exception as e:
            rec.count("caller_driven_steps_with_a_draining_segment_raised")
            rec.seen("caller_driven_steps_with_a_draining_segment_raised", repr(e)[:120])
            continue
        veh = lambda d_: sum(sum(d_[l_["id"]]["rho"]) * l_["lam"] * l_["L"] for l_ in desc["links"])  # noqa: E731
        q_out = vals["L1"]["rho"][-1] * vals["L1"]["v"][-1] * 2
        o = desc["origins"][0]
        if o["kind"] == "ideal":
            inflow, dq = vals["L0"]["rho"][0] * vals["L0"]["v"][0] * 2, 0.0
        else:
            inflow, dq = vals["O0"]["d"], nxt["O0"]["w"] - vals["O0"]["w"]
        lhs = veh(nxt) - veh(vals) + dq
        rhs = T * (inflow - q_out)
        mag = veh(vals) + abs(T * inflow) + abs(T * q_out) + abs(dq)
        if min(min(nxt[l_["id"]]["rho"]) for l_ in desc["links"]) < 0:
            rec.count("caller_driven_steps_with_a_negative_next_density")
        if not O.close(lhs, rhs, mag, rel=1e-9):
            rec.violation(f"{PROP}:numpy:network-wide vehicle balance broken in the caller's own per-element loop (no option passed; a segment drains below zero)",
                          {"desc": desc, "vals": vals, "next": nxt, "change_of_vehicles_in_the_network": lhs, "T_times_inflow_minus_outflow": rhs})


def finish(M, rec, write=True):
    nc = rec.cover.get("node_classes", set())
    if not rec.violations:
        need = {
            "merge": any(s.startswith("('>=2', '1'") for s in nc),
            "bifurcation": any(s.startswith("('1', '>=2'") for s in nc),
            "crossing": any(s.startswith("('>=2', '>=2'") for s in nc),
            "interior ramp": any(("'ramp')" in s or "'simple')" in s) and not s.startswith("('0'") for s in nc),
            "cycle": "cycle" in nc,
        }
        for k, v in need.items():
            rec.gate(v, f"no node of class {k} observed")
        rec.gate(rec.counters.get("compiled_node_balances", 0) > 0, "no compiled-function balance evaluated")
        rec.gate(rec.counters.get("monitor_internal_errors", 0) == 0, "monitor internal errors")
    return rec.finish(
        ["node_balances", "global_balances", "compiled_node_balances", "compiled_queue_balances", "cumulative_balances"],
        ["sig_x_engine"],
        rule="per-node and network-wide vehicle balance computed from inputs and outputs only, on every "
        "Network.step of generated valid networks (NumPy, SX, MX), on to_function(more_out=True) outputs at "
        "compactness 0/1/2 and cumulatively over closed-loop simulations; distinct = distinct (engine, network "
        "signature) pairs on which balances were evaluated",
        assumptions=["steps with positivity clamps on next states are excluded (the property excludes them)",
                     "the model's own 0/0 inputs are skipped and counted"],
        write=write,
    )
