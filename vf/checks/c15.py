"""C15 — both engines compute the same value for every model primitive.

In-situ shadow evaluation (vf/primmon.py): every call of a NumPy primitive with numeric
arguments is re-evaluated by the CasADi primitive on DM copies and vice versa.  Workloads:
(1) direct calls of all 16 primitives in both directions with boundary arguments, every
branch, every optional-argument combination and the three shapes the element layer
produces; (2) NumPy network steps, so the primitives are observed with exactly the
arguments the element layer builds.
"""
import math
import random

import casadi as cs
import numpy as np

from vf import primmon, refmodel as R, workloads as W

PROP = "C15"
WATCHDOG_S = 3000


def shp(x, mode):
    """Scalar x in the requested shape for the given engine side."""
    if mode == "np0d":
        return np.array(float(x))
    if mode == "npf":
        return float(x)
    if mode == "np1":
        return np.array([float(x)])
    if mode == "dm":
        return cs.DM(float(x))
    raise ValueError(mode)


def vec(xs, side):
    return np.array(xs, dtype=float) if side == "numpy" else cs.DM([float(t) for t in xs])


vec0 = vec


def _ro_vec(xs, side):
    a = np.array(xs, dtype=float)
    a.flags.writeable = False
    return a


def link_pars(r):
    return dict(lam=r.choice((1, 2, 3, 4, 2.5)), L=r.uniform(0.4, 1.6), rho_max=r.uniform(160, 200),
                rho_crit=r.uniform(25, 40), v_free=r.uniform(90, 130), a=r.uniform(1.2, 3.2))


def rho_val(r, p):
    return r.choice((0.0, p["rho_crit"], p["rho_max"], r.uniform(0.5, 5), r.uniform(5, p["rho_crit"]),
                     r.uniform(p["rho_crit"], p["rho_max"]), p["rho_max"] * 1.05))


def v_val(r, p):
    return r.choice((0.0, p["v_free"], r.uniform(0.1, 4), r.uniform(5, p["v_free"]), 0.04 * p["v_free"],
                     p["v_free"] * 1.1, p["v_free"] * math.exp(-1 / p["a"])))


class _SliceSigns:
    """Helper: a slice object plus the positions it selects on N segments (the harness iterates the positions, the library gets
    the slice itself through `.slice`)."""

    def __init__(self, start, stop, step, N):
        self.slice = slice(start, stop, step)
        self.positions = list(range(N))[self.slice]

    def __iter__(self):
        return iter(self.positions)

    def __len__(self):
        return len(self.positions)


def _fresh(x, rng):
    """The flow-equation name as a literal, as a string built at run time (a value read from a
    configuration file is equal to the literal, not identical to it), or as a numpy string."""
    k = rng.random()
    if k < 0.4 or not isinstance(x, str):
        return x
    if k < 0.7:
        return "".join(list(x))
    if k < 0.85:
        from vf import desc as D_

        return D_.RampFlow(x)  # a member of a string enumeration: a `str` equal to the name
    return np.str_(x)


def direct_calls(M, rec, rng, reps):
    import sym_metanet.engines.casadi as EC
    import sym_metanet.engines.numpy as EN

    T0 = 10 / 3600
    for _ in range(reps):
        side = rng.choice(("numpy", "casadi"))
        E = EN if side == "numpy" else EC
        smode = rng.choice(("np0d", "npf", "np1")) if side == "numpy" else "dm"
        vec = vec0
        s = lambda x: shp(x, smode)  # noqa: E731
        p = link_pars(rng)
        T = rng.choice((T0, T0, 5 / 3600, 15 / 3600, 1.5))
        N = rng.choice((1, 1, 2, 3, 5, 9))
        rho = [rho_val(rng, p) for _ in range(N)]
        v = [v_val(rng, p) for _ in range(N)]
        intmode = side == "numpy" and rng.random() < 0.15
        if intmode:  # whole-number states handed over as integer arrays
            rho = [float(round(x)) for x in rho]
            v = [float(round(x)) for x in v]
            rec.count("direct_calls_with_integer_vectors")
        _vec = vec
        vec_ = (lambda xs, sd: (np.array(xs).astype(np.int64) if (intmode and all(float(t).is_integer() for t in xs)) else _vec(xs, sd)))
        prim = rng.choice((
            "get_upstream_flow", "get_upstream_speed", "get_downstream_density", "get_flow", "step_density",
            "step_speed", "Veq", "controlled_Veq", "step_queue", "get_mainstream_flow", "get_ramp_flow",
            "get_simplifiedramp_flow", "get_congestion_free_downstream_density",
            "get_congested_downstream_density", "max", "vcat"))
        rec.count("direct_calls")
        try:
            if prim == "get_upstream_flow":
                k = rng.randint(1, 4)
                m = rng.randint(1, 4)
                ql = [rng.choice((0.0, rng.uniform(10, 5000))) for _ in range(k)]
                betas = [rng.uniform(0.1, 2.5) for _ in range(m)]
                qo = rng.choice((None, s(rng.choice((0.0, rng.uniform(10, 2000))))))
                args = (vec(ql, side), betas[0], vec(betas, side)) + ((qo,) if qo is not None else ())
                rec.seen("optional_combos", ("get_upstream_flow", qo is not None))
                E.NodesEngine.get_upstream_flow(*args)
            elif prim == "get_upstream_speed":
                k = rng.randint(2, 4)
                ql = [rng.uniform(1, 5000) for _ in range(k)]
                if rng.random() < 0.3:
                    ql[0] = 0.0
                E.NodesEngine.get_upstream_speed(vec(ql, side), vec([v_val(rng, p) for _ in range(k)], side))
            elif prim == "get_downstream_density":
                k = rng.randint(2, 4)
                rf = [rho_val(rng, p) for _ in range(k)]
                if sum(rf) == 0:
                    rf[0] = 1.0
                E.NodesEngine.get_downstream_density(vec(rf, side))
            elif prim == "get_flow":
                E.LinksEngine.get_flow(vec_(rho, side), vec_(v, side), p["lam"])
            elif prim == "step_density":
                q = [a * b * p["lam"] for a, b in zip(rho, v)]
                qu = [rng.uniform(0, 6000) for _ in range(N)]
                E.LinksEngine.step_density(vec_(rho, side), vec(q, side), vec(qu, side), p["lam"], p["L"], T)
            elif prim == "step_speed":
                vu = [v_val(rng, p) for _ in range(N)]
                rd = [rho_val(rng, p) for _ in range(N)]
                Ve = [R.veq(x, p["v_free"], p["rho_crit"], p["a"]) for x in rho]
                combo = rng.randrange(4)
                q_ramp = s(rng.uniform(0, 2000)) if combo & 1 else None
                delta = rng.choice((0.0122, 0.8)) if combo & 1 else None
                ld = rng.choice((1, 2, -1, 1.5)) if combo & 2 else None
                phi = rng.choice((1.0, 1.8)) if combo & 2 else None
                rc = p["rho_crit"] if combo & 2 else None
                # partial combinations (term inactive although some argument is given)
                if rng.random() < 0.15:
                    delta = None
                if rng.random() < 0.15:
                    phi = None
                rec.seen("optional_combos", ("step_speed", q_ramp is not None, delta is not None, ld is not None, phi is not None))
                E.LinksEngine.step_speed(vec_(v, side), vec(vu, side), vec_(rho, side), vec(rd, side), vec(Ve, side),
                                         p["lam"], p["L"], 18 / 3600, 60.0, 40.0, T, q_ramp, delta, ld, phi, rc)
            elif prim == "Veq":
                if rng.random() < 0.3:
                    E.LinksEngine.Veq(s(rho[0]), p["v_free"], p["rho_crit"], p["a"])
                else:
                    E.LinksEngine.Veq(vec_(rho, side), p["v_free"], p["rho_crit"], p["a"])
            elif prim == "controlled_Veq":
                vsl = sorted(rng.sample(range(N), rng.randint(0, N)))
                if rng.random() < 0.2:
                    # evenly spaced signs written as a range (the last k segments, every other one, all of them backwards)
                    k_ = rng.randint(1, N)
                    vsl = rng.choice((range(0, k_), range(-k_, 0), range(N - 1, -1, -1), range(0, N, 2), range(-1, -k_ - 1, -1), range(N - k_, N)))
                    rec.count("direct_calls_with_signs_given_as_a_range")
                    if rng.random() < 0.4:
                        # ... or as the slice that selects the same segments (`link.vsl = slice(1, 4)`)
                        cand_ = _SliceSigns(*rng.choice(((1, None, None), (0, k_, None), (-k_, None, None), (0, None, 2), (None, None, -1), (N - k_, N, None))), N)
                        vsl = cand_ if len(cand_) else vsl  # (a slice that selects nothing is refused by CasADi on the unchanged tree)
                if isinstance(vsl, _SliceSigns):
                    rec.count("direct_calls_with_signs_given_as_a_slice")
                vc = []
                for i in vsl:
                    V = R.veq(rho[i], p["v_free"], p["rho_crit"], p["a"])
                    vc.append(rng.choice((rng.uniform(10, 70), 200.0, math.inf, 0.0, V / 1.1, V)))
                rec.seen("optional_combos", ("controlled_Veq", min(len(vsl), 2), N == len(vsl)))
                E.LinksEngine.controlled_Veq(vec_(rho, side), vec(vc, side), (vsl.slice if isinstance(vsl, _SliceSigns) else vsl), rng.choice((0.1, 0.0, -0.1)),
                                             p["v_free"], p["rho_crit"], p["a"])
            elif prim == "step_queue":
                E.OriginsEngine.step_queue(s(rng.choice((0.0, rng.uniform(0, 500)))), s(rng.uniform(0, 5000)),
                                           s(rng.uniform(0, 5000)), T)
            elif prim == "get_mainstream_flow":
                v1 = v[0]
                vctrl = rng.choice((rng.uniform(5, 70), 200.0, math.inf, v1, 0.0, 0.03 * p["v_free"],
                                    p["v_free"] * math.exp(-1 / p["a"])))
                d = rng.choice((0.0, rng.uniform(100, 7000)))
                w = rng.choice((0.0, rng.uniform(0, 600)))
                br = []
                R.mainstream_flow(d, w, vctrl, v1, p["rho_crit"], p["a"], p["v_free"], p["lam"], T, br, "main")
                for b in br:
                    rec.seen("branches", b)
                E.OriginsEngine.get_mainstream_flow(s(d), s(w), s(vctrl), s(v1), p["rho_crit"], p["a"], p["v_free"], p["lam"], T)
            elif prim == "get_ramp_flow":
                eq = rng.choice(("in", "out", None))
                C = rng.uniform(1200, 4500)
                d = rng.choice((0.0, rng.uniform(100, 7000), C))
                w = rng.choice((0.0, 0.0, rng.uniform(0, 600)))
                r_ = rng.choice((0.0, 1.0, rng.random()))
                if rng.random() < 0.06:
                    d = math.inf  # inexhaustible supply, also at a closed ramp
                    rec.count("direct_calls_with_infinite_demand")
                br = []
                R.ramp_flow(d, w, C, r_, p["rho_max"], rho[0], p["rho_crit"], T, eq or "out", br, "ramp:" + str(eq))
                for b in br:
                    rec.seen("branches", b)
                r_arg = s(r_)
                if side == "numpy" and r_ in (0.0, 1.0) and rng.random() < 0.3:
                    r_arg = rng.choice((bool(r_), np.bool_(bool(r_)), np.array([bool(r_)])))  # an on/off metering signal
                    rec.count("direct_calls_with_a_boolean_metering_rate")
                args = (s(d), s(w), C, r_arg, p["rho_max"], s(rho[0]), p["rho_crit"], T)
                if eq is None:
                    E.OriginsEngine.get_ramp_flow(*args)
                elif rng.random() < 0.5:
                    E.OriginsEngine.get_ramp_flow(*args, _fresh(eq, rng))
                else:
                    E.OriginsEngine.get_ramp_flow(*args, type=_fresh(eq, rng))
            elif prim == "get_simplifiedramp_flow":
                eq = rng.choice(("limited", "unlimited", None))
                C = rng.uniform(1200, 4500)
                d = rng.choice((0.0, rng.uniform(100, 7000)))
                w = rng.choice((0.0, rng.uniform(0, 600)))
                qd = rng.choice((0.0, rng.uniform(50, 4000), math.inf if eq != "unlimited" else 100.0))
                br = []
                R.simple_ramp_flow(qd, d, w, C, p["rho_max"], rho[0], p["rho_crit"], T, eq or "limited", br, "simple:" + str(eq))
                for b in br:
                    rec.seen("branches", b)
                if eq == "unlimited" and rng.random() < 0.5:
                    E.OriginsEngine.get_simplifiedramp_flow(s(qd), type=_fresh("unlimited", rng))
                    rec.seen("optional_combos", ("get_simplifiedramp_flow", "qdes-only"))
                else:
                    args = (s(qd), s(d), s(w), C, p["rho_max"], s(rho[0]), p["rho_crit"], T)
                    if eq is None:
                        E.OriginsEngine.get_simplifiedramp_flow(*args)
                    else:
                        E.OriginsEngine.get_simplifiedramp_flow(*args, _fresh(eq, rng))
            elif prim == "get_congestion_free_downstream_density":
                x = rng.choice((rho[-1], p["rho_crit"]))
                rec.seen("branches", ("dstfree", R._tie(x, p["rho_crit"], "rho", "crit")))
                E.DestinationsEngine.get_congestion_free_downstream_density(s(x), p["rho_crit"])
            elif prim == "get_congested_downstream_density":
                x = rng.choice((rho[-1], p["rho_crit"]))
                dd = rng.choice((0.0, rng.uniform(1, p["rho_max"]), min(x, p["rho_crit"])))
                rec.seen("branches", ("dstcong", R._tie(dd, min(x, p["rho_crit"]), "free", "scen")))
                E.DestinationsEngine.get_congested_downstream_density(s(x), s(dd), p["rho_crit"])
            elif prim == "max":
                e = E.Engine() if side == "numpy" else E.Engine("SX")
                xs = [rng.choice((-1.0, 0.0, 1.0)) * rng.uniform(0, 100) for _ in range(N)]
                e.max(0, vec(xs, side))
            else:
                e = E.Engine() if side == "numpy" else E.Engine("SX")
                parts = [s(rng.uniform(0, 100)), vec([rng.uniform(0, 100) for _ in range(N)], side)]
                if rng.random() < 0.5:
                    parts.reverse()
                if rng.random() < 0.3:
                    parts.append(s(rng.uniform(0, 100)))
                e.vcat(*parts)
        except Exception as e:
            rec.violation(f"{PROP}:{prim}: {side} implementation raised {type(e).__name__} on admissible arguments (scalar shape {smode})",
                          {"primitive": prim, "side": side, "exception": repr(e)[:300]})


def vsl_layouts(M, rec, rng, nmax, k=0, n=1):
    """Every set of speed-limited segments of a link with <= nmax segments (2^N layouts each), on both
    engines, with a distinct and binding limit on every sign: the shadow evaluation compares the engines,
    and the layout itself (which segments are limited) is compared with the plain formula."""
    import sym_metanet.engines.casadi as EC
    import sym_metanet.engines.numpy as EN

    i = 0
    for N in range(1, nmax + 1):
        for mask in range(2 ** N):
            i += 1
            if i % n != k:
                continue
            vsl = [j for j in range(N) if mask >> j & 1]
            p = link_pars(rng)
            rho = [rng.uniform(2, p["rho_crit"]) for _ in range(N)]
            alpha = rng.choice((0.0, 0.1, -0.1, -0.15))  # non-compliance, or enforced limits
            Ve = [R.veq(x, p["v_free"], p["rho_crit"], p["a"]) for x in rho]
            # binding limits; sometimes every sign idle (showing the free-flow speed or more)
            idle = rng.random() < 0.2
            vc = [(rng.choice((p["v_free"], p["v_free"] * 1.3, 1e9)) if idle else Ve[j] * rng.uniform(0.3, 0.8) / (1 + alpha)) for j in vsl]
            exp = list(Ve)
            for j, c in zip(vsl, vc):
                exp[j] = min(Ve[j], (1 + alpha) * c)
            # the list of limited segments may be written in any order (limits in the same order), the last
            # segment also Python-style as -1
            order = list(range(len(vsl)))
            listing = "ascending"
            if len(vsl) >= 2 and rng.random() < 0.5:
                rng.shuffle(order)
                listing = "any order"
            vsl_w = [vsl[j] for j in order]
            vc_w = [vc[j] for j in order]
            if vsl_w and (N - 1) in vsl_w and rng.random() < 0.3:
                vsl_w[vsl_w.index(N - 1)] = -1
                listing += ", last segment as -1"
            rec.seen("vsl_listing_forms", listing)
            for side, E in (("numpy", EN), ("casadi", EC)):
                rec.count("vsl_layout_calls")
                try:
                    out = E.LinksEngine.controlled_Veq(vec(rho, side), vec(vc_w, side), list(vsl_w), alpha, p["v_free"], p["rho_crit"], p["a"])
                    got = [float(t) for t in np.asarray(out, dtype=float).ravel()]
                except Exception as e:
                    rec.violation(f"{PROP}:controlled_Veq: {side} implementation raised {type(e).__name__} for a set of limited segments",
                                  {"side": side, "segments": N, "limited": vsl, "exception": repr(e)[:300]})
                    continue
                if len(got) != N or any(abs(a - b) > 1e-9 * (1 + abs(b)) for a, b in zip(got, exp)):
                    rec.violation(f"{PROP}:controlled_Veq: {side} result is not min(Veq, (1+alpha) limit) on exactly the limited segments",
                                  {"side": side, "segments": N, "limited_as_listed": vsl_w, "limits_as_listed": vc_w, "got": got, "expected": exp})
    rec.extra["exhaustive_vsl_layouts_up_to_segments"] = nmax


def numpy_arguments_to_casadi(M, rec, rng, reps, mon):
    """The vector primitives of the CasADi link engine called with plain writable NumPy arrays (they are plain
    arithmetic, so this works on the unchanged tree; a primitive that refuses such arguments is counted, not judged),
    side by side with the NumPy engine ON THE SAME ARGUMENT OBJECTS: both must return the value of the reference
    computed from copies taken before the calls."""
    import sym_metanet.engines.casadi as EC
    import sym_metanet.engines.numpy as EN

    was = mon.enabled
    mon.enabled = False
    try:
        for it in range(reps):
            p = link_pars(rng)
            T = 10 / 3600
            N = rng.choice((1, 2, 3, 5))
            rho = np.array([rho_val(rng, p) for _ in range(N)], float)
            v = np.array([v_val(rng, p) for _ in range(N)], float)
            prim = ("step_speed", "step_density", "get_flow", "Veq", "get_upstream_flow", "get_upstream_speed", "get_downstream_density", "step_queue")[it % 8]
            cls_ = "LinksEngine"
            if prim == "get_upstream_flow":
                cls_ = "NodesEngine"
                k_ = rng.choice((1, 1, 2, 3))  # one entering flow as a length-1 array as well
                m_ = rng.choice((1, 2, 3))
                betas = np.array([rng.uniform(0.1, 2.0) for _ in range(m_)], float)
                args = (np.array([rng.uniform(100, 4000) for _ in range(k_)], float), float(betas[0]), betas) + ((rng.uniform(50, 1500),) if it % 16 < 8 else ())
                if it % 32 >= 16 and len(args) == 4:
                    args = args[:3] + (np.array([args[3]]),)
            elif prim == "get_upstream_speed":
                cls_ = "NodesEngine"
                k_ = rng.choice((1, 2, 3))
                args = (np.array([rng.uniform(100, 4000) for _ in range(k_)], float), np.array([rng.uniform(10, 110) for _ in range(k_)], float))
            elif prim == "get_downstream_density":
                cls_ = "NodesEngine"
                args = (np.array([rng.uniform(5, 150) for _ in range(rng.choice((1, 2, 3)))], float),)
            elif prim == "step_queue":
                cls_ = "OriginsEngine"
                args = (np.array([rng.uniform(0, 300)]), np.array([rng.uniform(0, 4000)]), np.array([rng.uniform(0, 4000)]), T)
            elif prim == "step_speed":
                vu = np.array([v_val(rng, p) for _ in range(N)], float)
                rd = np.array([rho_val(rng, p) for _ in range(N)], float)
                Ve = np.array([R.veq(x, p["v_free"], p["rho_crit"], p["a"]) for x in rho], float)
                combo = rng.randrange(4)
                extra = ((rng.uniform(0, 2000), 0.0122) if combo & 1 else (None, None)) + ((1, 1.8, p["rho_crit"]) if combo & 2 else (None, None, None))
                args = (v, vu, rho, rd, Ve, p["lam"], p["L"], 18 / 3600, 60.0, 40.0, T) + extra
            elif prim == "step_density":
                q = rho * v * p["lam"]
                qu = np.array([rng.uniform(0, 6000) for _ in range(N)], float)
                args = (rho, q, qu, p["lam"], p["L"], T)
            elif prim == "get_flow":
                args = (rho, v, p["lam"])
            else:
                args = (rho, p["v_free"], p["rho_crit"], p["a"])
            frozen = tuple(a.copy() if isinstance(a, np.ndarray) else a for a in args)
            try:
                expected = np.asarray(getattr(getattr(EN, cls_), prim)(*tuple(a.copy() if isinstance(a, np.ndarray) else a for a in frozen)), float).reshape(-1)
            except Exception:
                continue
            order = ("casadi", "numpy") if it % 8 < 4 else ("numpy", "casadi")
            got = {}
            refused = False
            for side in order:
                E = EC if side == "casadi" else EN
                try:
                    r_ = getattr(getattr(E, cls_), prim)(*args)
                    got[side] = np.asarray(cs.DM(r_) if not isinstance(r_, (np.ndarray, float)) else r_, float).reshape(-1)
                except Exception:
                    if side == "casadi":
                        refused = True
                        break
                    raise
            if refused:
                rec.count("numpy_arguments_refused_by_casadi")
                continue
            rec.count("numpy_arguments_to_casadi")
            rec.seen("numpy_arguments_primitives", prim)
            if any(isinstance(a, np.ndarray) and not np.array_equal(a, f_) for a, f_ in zip(args, frozen)):
                rec.violation(f"{PROP}:{prim}: after both implementations were called with the caller's NumPy arrays, an array no longer holds what was handed over "
                              "(the next call gets other arguments)", {"primitive": prim, "order": order})
                continue
            for side in order:
                g_ = got[side]
                if g_.shape != expected.shape or not np.allclose(g_, expected, rtol=1e-9, atol=1e-9, equal_nan=True):
                    rec.violation(f"{PROP}:{prim}: called with the same NumPy arrays right after each other, the {side} implementation "
                                  "does not return the value the arguments had when handed over",
                                  {"primitive": prim, "order": order, "side": side, "expected": expected.tolist(), "got": g_.tolist()})
                    break
    finally:
        mon.enabled = was


def retained_results(M, rec, rng, reps, mon):
    """A caller keeps the result of one primitive call while making the next one with arguments of the same shapes (two
    parameter sets, two candidate limits, a fine density grid of several thousand points): the kept result must still be
    the value for ITS arguments afterwards, on both engines."""
    import sym_metanet.engines.casadi as EC
    import sym_metanet.engines.numpy as EN

    was = mon.enabled
    mon.enabled = False
    try:
        for it in range(reps):
            side = ("numpy", "casadi")[it % 2]
            E = EN if side == "numpy" else EC
            N = rng.choice((1, 3, 7, 4096, 5000, 6000)) if it % 3 == 0 else rng.choice((1, 2, 3, 5, 9))
            prim = ("Veq", "controlled_Veq", "get_flow", "step_density", "step_speed", "step_queue", "get_ramp_flow", "get_downstream_density")[(it // 2) % 8]
            mk = (lambda xs: np.array(xs, float)) if side == "numpy" else (lambda xs: cs.DM(list(xs)))

            def draw():
                p = link_pars(rng)
                rho = [rho_val(rng, p) for _ in range(min(N, 12))] * (N // min(N, 12) + 1)
                rho = rho[:N]
                v = [v_val(rng, p) for _ in range(min(N, 12))] * (N // min(N, 12) + 1)
                v = v[:N]
                T = 10 / 3600
                if prim == "Veq":
                    return (mk(rho), p["v_free"], p["rho_crit"], p["a"]), [R.veq(x, p["v_free"], p["rho_crit"], p["a"]) for x in rho]
                if prim == "controlled_Veq":
                    vsl = sorted(rng.sample(range(N), min(N, rng.randint(1, 3))))
                    vc = [rng.uniform(10, 70) for _ in vsl]
                    al = rng.choice((0.1, 0.0))
                    exp = [R.veq(x, p["v_free"], p["rho_crit"], p["a"]) for x in rho]
                    for i_, c_ in zip(vsl, vc):
                        exp[i_] = min(exp[i_], (1 + al) * c_)
                    return (mk(rho), mk(vc), vsl, al, p["v_free"], p["rho_crit"], p["a"]), exp
                if prim == "get_flow":
                    return (mk(rho), mk(v), p["lam"]), [a_ * b_ * p["lam"] for a_, b_ in zip(rho, v)]
                if prim == "step_density":
                    q = [a_ * b_ * p["lam"] for a_, b_ in zip(rho, v)]
                    qu = [rng.uniform(0, 6000) for _ in range(N)]
                    return ((mk(rho), mk(q), mk(qu), p["lam"], p["L"], T),
                            [r_ + T / (p["lam"] * p["L"]) * (u_ - q_) for r_, q_, u_ in zip(rho, q, qu)])
                if prim == "step_speed":
                    vu = [v[0]] + v[:-1]
                    rd = rho[1:] + [rho[-1]]
                    Ve = [R.veq(x, p["v_free"], p["rho_crit"], p["a"]) for x in rho]
                    tau, eta, kappa = 18 / 3600, 60.0, 40.0
                    exp = [v_ + T / tau * (e_ - v_) + T / p["L"] * v_ * (u_ - v_) - eta * T / (tau * p["L"]) * (d_ - r_) / (r_ + kappa)
                           for v_, u_, r_, d_, e_ in zip(v, vu, rho, rd, Ve)]
                    return (mk(v), mk(vu), mk(rho), mk(rd), mk(Ve), p["lam"], p["L"], tau, eta, kappa, T), exp
                if prim == "step_queue":
                    w, d, q = rng.uniform(0, 500), rng.uniform(0, 5000), rng.uniform(0, 5000)
                    sc = (lambda x: np.array([x])) if side == "numpy" else (lambda x: cs.DM(x))
                    return (sc(w), sc(d), sc(q), T), [w + T * (d - q)]
                if prim == "get_ramp_flow":
                    C = rng.uniform(1200, 4500)
                    d, w, r_ = rng.uniform(100, 7000), rng.uniform(0, 600), rng.random()
                    sc = (lambda x: np.array([x])) if side == "numpy" else (lambda x: cs.DM(x))
                    return ((sc(d), sc(w), C, sc(r_), p["rho_max"], sc(rho[0]), p["rho_crit"], T, "out"),
                            [R.ramp_flow(d, w, C, r_, p["rho_max"], rho[0], p["rho_crit"], T, "out", [], "x")])
                k_ = min(N, 4)
                rf = [x + 1.0 for x in rho[:k_]]
                return (mk(rf),), [sum(x * x for x in rf) / sum(rf)]

            cls = {"Veq": "LinksEngine", "controlled_Veq": "LinksEngine", "get_flow": "LinksEngine", "step_density": "LinksEngine", "step_speed": "LinksEngine",
                   "step_queue": "OriginsEngine", "get_ramp_flow": "OriginsEngine", "get_downstream_density": "NodesEngine"}[prim]
            fn = getattr(getattr(E, cls), prim)
            try:
                a1, e1 = draw()
                a2, e2 = draw()
                r1 = fn(*a1)
                first_now = np.asarray(cs.DM(r1) if side == "casadi" else r1, float).reshape(-1).copy()
                r2 = fn(*a2)
                first_later = np.asarray(cs.DM(r1) if side == "casadi" else r1, float).reshape(-1)
                second = np.asarray(cs.DM(r2) if side == "casadi" else r2, float).reshape(-1)
            except Exception as e:
                rec.violation(f"{PROP}:{prim}: {side} implementation raised {type(e).__name__} on two consecutive calls with arguments of equal shapes",
                              {"primitive": prim, "side": side, "N": N, "exception": repr(e)[:300]})
                continue
            rec.count("retained_result_pairs")
            rec.seen("retained_result_sizes", (prim, side, "large" if N >= 4096 else "small"))
            for what, got, exp in (("first result, read right after its call", first_now, e1), ("first result, read after the second call", first_later, e1),
                                   ("second result", second, e2)):
                ex = np.asarray(exp, float).reshape(-1)
                if got.shape != ex.shape or not np.allclose(got, ex, rtol=1e-8, atol=1e-8, equal_nan=True):
                    rec.violation(f"{PROP}:{prim}: {side}: of two consecutive calls with equally shaped arguments, the {what} is not the value for its own arguments",
                                  {"primitive": prim, "side": side, "N": N, "got": got[:6].tolist(), "expected": ex[:6].tolist()})
                    break
    finally:
        mon.enabled = was


def parameters_refilled_in_place(M, rec, rng, reps, mon):
    """An identification / sweep loop: the model parameters of a primitive are length-1 views of ONE preallocated vector that
    is refilled in place per candidate (`theta[:] = cand`); the same argument objects go into every call - each call returns the
    value for what the arguments hold THEN, on both engines (CasADi gets the numbers of that moment)."""
    import sym_metanet.engines.casadi as EC
    import sym_metanet.engines.numpy as EN

    was = mon.enabled
    mon.enabled = False
    try:
        for it in range(reps):
            theta = np.zeros(3)
            rc_, vf_, a_ = theta[0:1], theta[1:2], theta[2:3]
            T = 10 / 3600
            lam = rng.choice((1, 2, 3))
            which = ("get_mainstream_flow", "Veq")[it % 2]
            for k in range(3):
                theta[:] = (rng.uniform(25.0, 40.0), rng.uniform(90.0, 130.0), rng.uniform(1.2, 3.2))
                if which == "get_mainstream_flow":
                    d, w, vc, v1 = rng.uniform(3000, 9000), rng.uniform(0, 60), rng.choice((500.0, rng.uniform(20.0, 90.0))), rng.uniform(20.0, 110.0)
                    got = float(np.asarray(EN.OriginsEngine.get_mainstream_flow(np.array([d]), np.array([w]), np.array([vc]), np.array([v1]), rc_, a_, vf_, lam, T)).ravel()[0])
                    exp = float(np.asarray(cs.DM(EC.OriginsEngine.get_mainstream_flow(cs.DM(d), cs.DM(w), cs.DM(vc), cs.DM(v1), float(theta[0]), float(theta[2]), float(theta[1]), lam, T))).ravel()[0])
                    ref = R.mainstream_flow(d, w, vc, v1, float(theta[0]), float(theta[2]), float(theta[1]), lam, T, [], "main")
                else:
                    rho = rng.uniform(5.0, 150.0)
                    got = float(np.asarray(EN.LinksEngine.Veq(np.array([rho]), vf_, rc_, a_)).ravel()[0])
                    exp = float(np.asarray(cs.DM(EC.LinksEngine.Veq(cs.DM(rho), float(theta[1]), float(theta[0]), float(theta[2])))).ravel()[0])
                    ref = R.veq(rho, float(theta[1]), float(theta[0]), float(theta[2]))
                rec.count("calls_with_parameters_refilled_in_place")
                if not (abs(got - exp) <= 1e-9 * (1 + abs(exp))) or not (abs(got - ref) <= 1e-9 * (1 + abs(ref))):
                    rec.violation(f"{PROP}:{which}: numpy: with parameter arrays refilled in place between calls (the same argument objects), the value is not the one for what they hold now",
                                  {"primitive": which, "call": k, "numpy": got, "casadi_with_those_numbers": exp, "reference": ref, "parameters_now": theta.tolist()})
                    break
    finally:
        mon.enabled = was


def run(M, rec, tier, seed, k, n):
    np.seterr(all="ignore")
    rng = random.Random(seed * 1000 + k + 1500)
    mon = primmon.PrimMonitor(M, rec, PROP).install()
    try:
        vsl_layouts(M, rec, rng, 8 if tier == "quick" else 12, k, n)
        from vf import batched

        batched.batched_primitives(M, rec, rng, PROP, 600 if tier == "quick" else 6000, monitors=(mon,))
        direct_calls(M, rec, rng, 12000 if tier == "quick" else 150000)
        numpy_arguments_to_casadi(M, rec, rng, 960 if tier == "quick" else 9600, mon)
        retained_results(M, rec, rng, 480 if tier == "quick" else 4800, mon)
        parameters_refilled_in_place(M, rec, rng, 100 if tier == "quick" else 1000, mon)
        was_ = mon.enabled
        mon.enabled = False  # (complex arguments have no CasADi counterpart: decided against finite differences of the same primitives)
        try:
            W.complex_step_jacobians(M, rec, rng, PROP, 40 if tier == "quick" else 400, what="the NumPy primitives (through a network step)")
        finally:
            mon.enabled = was_
        W.numpy_steps(M, rec, rng, 150 if tier == "quick" else 1500, draws=2)
    finally:
        mon.uninstall()
    if k == 0:
        W.repo_tests(rec, [PROP])
    rec.sample({"note": "see coverage_set_members.prim_x_shapes for the (primitive, argument shapes) pairs observed"})


ALL16 = [n for ns in primmon.PRIMS.values() for n in ns] + ["max", "vcat"]


def finish(M, rec, write=True):
    if not rec.violations:
        pd = rec.cover.get("prim_x_direction", set())
        for p in ALL16:
            for d in ("numpy->casadi", "casadi->numpy"):
                rec.gate(repr((p, d)) in pd, f"primitive {p} never shadow-evaluated in direction {d}")
        rec.gate(rec.counters.get("monitor_internal_errors", 0) == 0,
                 f"monitor internal errors: {sorted(rec.cover.get('monitor_internal_errors', []))[:3]}")
    return rec.finish(
        "shadow_evaluations",
        ["prim_x_shapes", "branches", "optional_combos"],
        rule="all 16 primitives called directly on both engines (NumPy with 0-d, float and length-1 scalars and length-N vectors; "
        "CasADi with DM) with boundary values (zero, critical, jam, above jam, standstill, infinite limits, exact ties), every "
        "flow-equation variant and optional-argument combination, + NumPy network steps (element-layer shapes); every call "
        "shadow-evaluated by the other engine; distinct = (primitive, argument shape tuple) pairs + reference branches + "
        "optional-argument combinations observed; + every set of limited segments on links of up to "
        "coverage.exhaustive_vsl_layouts_up_to_segments segments (distinct binding limits) on both engines against min(Veq,(1+alpha)limit)",
        assumptions=["DM evaluation of the CasADi primitives stands for their SX/MX expressions (C03 checks compiled functions)"],
        write=write,
    )
