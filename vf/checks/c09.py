"""C09 — construction calls build exactly the described graph; malformed paths rejected.

* icontract postconditions with ``OLD`` graph snapshots on add_node(s)/add_link(s)/
  add_origin/add_destination: graph after == specification applied to graph before;
* client-boundary driver for ``add_path``: every path shape of length 0..6 over
  {Node, Link, other object} x {origin?, destination?}; well-formed (odd length >= 3,
  alternating, node first/last) must succeed and produce the model graph, every other
  shape must raise; in all cases every graph node is a ``Node``;
* random construction histories checked against the model after every call.
"""
import itertools

import numpy as np
import random

from vf import desc as D, extract as X, netmon

PROP = "C09"
WATCHDOG_S = 3000


def well_formed(shape):
    if len(shape) < 3 or len(shape) % 2 == 0:
        return False
    return all(s == ("N" if i % 2 == 0 else "L") for i, s in enumerate(shape))


def shape_class(shape):
    """Structural class of a malformed shape (mechanism key)."""
    n = len(shape)
    if n == 0:
        return "empty"
    if n == 1:
        return "single-" + shape[0]
    if shape[0] != "N":
        return "first-not-node"
    for i, s in enumerate(shape):
        want = "N" if i % 2 == 0 else "L"
        if s != want:
            where = "last" if i == n - 1 else "middle"
            return f"{where}-position-expects-{want}-got-{s}"
    if n % 2 == 0:
        return "ends-with-link"
    return "wellformed"


def mk(M, kind, rng, pool):
    if kind == "N":
        return pool["N"][rng.randrange(len(pool["N"]))] if rng.random() < 0.3 and pool["N"] else _new(M, "N", pool)
    if kind == "L":
        return _new(M, "L", pool)
    # what stands where an element should: also the NAME of an element that is in the network (a string is not a node)
    r_ = rng.random()
    if r_ < 0.4 and pool["N"]:
        nm = rng.choice(pool["N"]).name
        return nm if rng.random() < 0.7 else np.str_(nm)
    if r_ < 0.5 and pool["L"]:
        return rng.choice(pool["L"]).name
    return rng.choice(("a string", 7, None, M.Origin(), M.Destination(), object(), (), 2.5))


def _new(M, kind, pool):
    o = M.Node() if kind == "N" else M.Link(2, 2, 1.0, 180.0, 33.0, 100.0, 1.8)
    pool[kind].append(o)
    return o


def all_nodes_are_nodes(M, net, rec, op, shape=None):
    for n in X.raw_graph(net).nodes:
        rec.count("node_type_checks")
        if not isinstance(n, M.Node):
            cls = shape_class(shape) if shape is not None else "-"
            rec.violation(f"{PROP}:{op}: an object that is not a Node became a node of the graph ({type(n).__name__}; path shape {cls})",
                          {"op": op, "shape": shape, "bad_node": repr(n)})


def path_shapes(M, rec, rng, maxlen, k, nsh):
    i = 0
    for n in range(0, maxlen + 1):
        for shape in itertools.product("NLX", repeat=n):
            for with_o, with_d in ((False, False), (True, False), (False, True), (True, True)):
                i += 1
                if i % nsh != k:
                    continue
                pool = {"N": [], "L": []}
                net = M.Network()
                # sometimes start from a non-empty network
                if i % 3 == 0:
                    a, b = M.Node(), M.Node()
                    net.add_link(a, _new(M, "L", pool), b)
                    pool["N"] += [a, b]
                path = [mk(M, s, rng, pool) for s in shape]
                o = M.MeteredOnRamp(1000.0) if with_o else None
                d = M.Destination() if with_d else None
                before = netmon.graph_state(net)
                wf = well_formed(shape)
                rec.count("path_calls")
                rec.seen("path_shape_classes", (shape_class(shape), with_o, with_d))
                try:
                    r = net.add_path(iter(path) if i % 2 else tuple(path), origin=o, destination=d)
                    raised = None
                except Exception as e:
                    raised = e
                all_nodes_are_nodes(M, net, rec, "add_path", shape)
                if wf:
                    if raised is not None:
                        rec.violation(f"{PROP}:add_path: well-formed path rejected with {type(raised).__name__}",
                                      {"shape": shape, "origin": with_o, "destination": with_d, "exception": repr(raised)[:300]})
                    else:
                        exp = netmon.model_apply(before, ("add_path", path, o, d))
                        netmon.compare_state(rec, PROP, netmon.graph_state(net), exp, ("add_path", shape, with_o, with_d))
                        rec.count("wellformed_paths_checked")
                        if r is not net:
                            rec.count("call_does_not_return_the_network")
                else:
                    if raised is None:
                        rec.violation(
                            f"{PROP}:add_path: malformed path accepted without error ({shape_class(shape)}; destination={'yes' if with_d else 'no'})",
                            {"shape": shape, "origin": with_o, "destination": with_d},
                        )
                    else:
                        rec.count("malformed_paths_rejected")
                        rec.seen("rejection_exception_types", type(raised).__name__)
                if rec.counters["path_calls"] in (40, 400):
                    rec.sample({"path_shape": "".join(shape), "origin": with_o, "destination": with_d,
                                "well_formed": wf, "raised": type(raised).__name__ if raised else None})


def names_in_place_of_nodes(M, rec):
    """Scripted in every run: the name of a node that IS in the network (str / numpy.str_) stands at the first, an
    interior or the last node position of a path - a string is not a node, the path is malformed and nothing is added."""
    mkl = lambda: M.Link(2, 2, 1.0, 180.0, 33.0, 100.0, 1.8)  # noqa: E731
    for pos in ("first", "interior", "last"):
        for conv in (str, np.str_):
            for with_d in (False, True):
                a, b, c = M.Node(name="A1"), M.Node(name="B1"), M.Node(name="C1")
                net = M.Network().add_path((a, mkl(), b, mkl(), c))
                x = M.Node(name="X1")
                path = {"first": [conv("B1"), mkl(), x], "interior": [x, mkl(), conv("B1"), mkl(), a], "last": [x, mkl(), conv("A1")]}[pos]
                before = netmon.graph_state(net)
                rec.count("path_calls")
                rec.count("paths_with_a_name_in_place_of_a_node")
                try:
                    net.add_path(path, destination=(M.Destination() if with_d else None))
                    raised = None
                except Exception as e:
                    raised = e
                all_nodes_are_nodes(M, net, rec, "add_path", None)
                if raised is None:
                    rec.violation(f"{PROP}:add_path: malformed path accepted without error (the name of a node of the network in place of a node, {pos} position; "
                                  f"destination={'yes' if with_d else 'no'})", {"position": pos, "type": conv.__name__})
                else:
                    rec.count("malformed_paths_rejected")
                    rec.seen("rejection_exception_types", type(raised).__name__)
                    if pos == "first" and netmon.graph_state(net) != before:
                        rec.violation(f"{PROP}:add_path: a path rejected at its first element changed the network", {"position": pos})


def value_equal_replacements(M, rec):
    """Scripted in every run: an origin / destination kind with value equality (equal names, distinct objects): attaching the
    second one where the first sits replaces it - through add_origin / add_destination and through add_path."""
    from vf import userkinds as UK

    mkl = lambda: M.Link(2, 2, 1.0, 180.0, 33.0, 100.0, 1.8)  # noqa: E731
    for via in ("single", "path"):
        a, b, c = M.Node(name="A"), M.Node(name="B"), M.Node(name="C")
        l1, l2 = mkl(), mkl()
        net = M.Network().add_path((a, l1, b, l2, c))
        o1, o2 = UK.NamedRamp(900.0, name="R"), UK.NamedRamp(2000.0, name="R")
        d1, d2 = UK.NamedDestination(name="D"), UK.NamedDestination(name="D")
        st = netmon.graph_state(net)
        steps = [("add_origin", o1, a), ("add_destination", d1, c), ("add_origin", o2, a), ("add_destination", d2, c), ("add_origin", o1, a)] if via == "single" else None
        if via == "single":
            for op in steps:
                getattr(net, op[0])(op[1], op[2])
                st = netmon.model_apply(st, op)
                rec.count("value_equal_replacements")
                if not netmon.compare_state(rec, PROP, netmon.graph_state(net), st, (op[0] + " of an element equal to (but not) the one attached there",)):
                    break
        else:
            for o_, d_ in ((o1, d1), (o2, d2), (o1, d2)):
                net.add_path((a, l1, b, l2, c), origin=o_, destination=d_)
                st = netmon.model_apply(st, ("add_path", [a, l1, b, l2, c], o_, d_))
                rec.count("value_equal_replacements")
                if not netmon.compare_state(rec, PROP, netmon.graph_state(net), st, ("add_path with an origin / destination equal to (but not) the one attached there",)):
                    break


def replacements_with_warnings_as_errors(M, rec):
    """Scripted in every run: the caller runs with warnings turned into errors (`python -W error`, pytest's
    `filterwarnings = error`): replacing an origin / destination, re-adding a node or a link are ordinary construction calls -
    they build what they describe there too."""
    import warnings

    mkl = lambda: M.Link(2, 2, 1.0, 180.0, 33.0, 100.0, 1.8)  # noqa: E731
    a, b, c = M.Node(name="A"), M.Node(name="B"), M.Node(name="C")
    l1, l2, l3 = mkl(), mkl(), mkl()
    net = M.Network()
    st = netmon.graph_state(net)
    o1, o2, d1, d2 = M.MeteredOnRamp(900.0), M.MainstreamOrigin(), M.Destination(), M.CongestedDestination()
    ops = [("add_path", [a, l1, b, l2, c], o1, d1), ("add_origin", o2, a), ("add_destination", d2, c), ("add_node", b), ("add_link", a, l3, b),
           ("add_path", [a, l1, b], o1, None), ("add_path", [b, l2, c], None, d1), ("add_origin", o1, b), ("add_nodes", [a, b, c])]
    with warnings.catch_warnings():
        warnings.simplefilter("error")
        for op in ops:
            rec.count("construction_calls_with_warnings_as_errors")
            try:
                if op[0] == "add_path":
                    net.add_path(tuple(op[1]), origin=op[2], destination=op[3])
                elif op[0] == "add_nodes":
                    net.add_nodes(op[1])
                else:
                    getattr(net, op[0])(*op[1:])
            except Exception as e:
                rec.violation(f"{PROP}:{op[0]}: a well-formed construction call failed when the caller turns warnings into errors ({type(e).__name__})",
                              {"op": op[0], "exception": repr(e)[:200]})
            st = netmon.model_apply(st, op)
            if not netmon.compare_state(rec, PROP, netmon.graph_state(net), st, (op[0] + " with warnings turned into errors",)):
                break


def link_kinds_registered_late(M, rec):
    """Scripted in every run: a duck-typed link class that is not a `Link` subclass - a path through one of its objects is
    malformed (and rejected); once the class is declared a link (`Link.register`, the reaction to that very error) the same
    path is well-formed and builds what it describes.  What an object is, is asked at each call (fresh class per run)."""
    for via in ("same network", "another network"):
        Duck = type("DuckLink", (), {"__init__": lambda self, name: setattr(self, "name", name)})
        a, b, c = M.Node(name="A"), M.Node(name="B"), M.Node(name="C")
        d1, d2 = Duck("d1"), Duck("d2")
        net = M.Network()
        before = netmon.graph_state(net)
        rec.count("path_calls")
        try:
            net.add_path((a, d1, b))
            rec.violation(f"{PROP}:add_path: malformed path accepted without error (an object of a class that is not a link kind at a link position)", {"via": via})
        except Exception:
            rec.count("malformed_paths_rejected")
        M.Link.register(Duck)
        net2 = net if via == "same network" else M.Network()
        st = netmon.graph_state(net2)
        rec.count("path_calls")
        try:
            net2.add_path((a, d1, b, d2, c), destination=M.Destination())
        except Exception as e:
            rec.violation(f"{PROP}:add_path: well-formed path rejected with {type(e).__name__} (its links are of a kind declared a link with Link.register after an earlier, rejected call)",
                          {"via": via, "exception": repr(e)[:200]})
            continue
        rec.count("wellformed_paths_checked")
        edges = {(id(u_), id(w_)): id(d_.get("link")) for u_, nb_ in X.raw_graph(net2)._succ.items() for w_, d_ in nb_.items()}
        if edges.get((id(a), id(b))) != id(d1) or edges.get((id(b), id(c))) != id(d2):
            rec.violation(f"{PROP}:add_path: a path through links of a late-registered kind did not build the described edges", {"via": via})


def long_paths(M, rec):
    """Scripted in every run: one path of several hundred links (a generator over a road table): every link of it is laid, the
    destination sits at its last node."""
    for n_links, form in ((513, "generator"), (700, "tuple"), (1100, "generator")):
        nodes = [M.Node() for _ in range(n_links + 1)]
        links = [M.Link(1, 2, 1.0, 180.0, 33.0, 100.0, 1.8) for _ in range(n_links)]
        pts = [nodes[0]]
        for i in range(n_links):
            pts += [links[i], nodes[i + 1]]
        dest = M.Destination()
        net = M.Network()
        rec.count("path_calls")
        rec.count("paths_of_several_hundred_links")
        try:
            net.add_path((p_ for p_ in pts) if form == "generator" else tuple(pts), origin=M.MainstreamOrigin(), destination=dest)
        except Exception as e:
            rec.violation(f"{PROP}:add_path: well-formed path rejected with {type(e).__name__} (a path of several hundred links)", {"links": n_links})
            continue
        G_ = X.raw_graph(net)
        n_edges = sum(len(nb_) for nb_ in G_._succ.values())
        at_last = G_._node.get(nodes[-1], {}).get("destination") is dest if nodes[-1] in G_._node else False
        rec.count("wellformed_paths_checked")
        if len(G_._node) != n_links + 1 or n_edges != n_links or not at_last:
            rec.violation(f"{PROP}:add_path: a path of several hundred links was not laid completely (nodes / edges / the destination at its last node)",
                          {"links": n_links, "nodes_in_graph": len(G_._node), "edges_in_graph": n_edges, "destination_at_the_last_node": bool(at_last)})


def histories(M, rec, rng, reps):
    for _ in range(reps):
        N = [M.Node() for _ in range(rng.randint(2, 5))]
        L = [M.Link(1, 2, 1.0, 180.0, 33.0, 100.0, 1.8) for _ in range(rng.randint(1, 5))]
        O = [M.MeteredOnRamp(900.0), M.Origin(), M.MainstreamOrigin()]
        Dd = [M.Destination(), M.CongestedDestination()]
        if rng.random() < 0.4:
            # clones of existing objects (copy / deepcopy / pickle round-trip, as when a stretch is duplicated
            # from a template): equal content, but other objects - other nodes, links, origins of the graph
            import copy
            import pickle

            def clone(x):
                how = rng.choice(("copy", "deepcopy", "pickle"))
                rec.seen("clone_forms", (how, type(x).__name__))
                return copy.copy(x) if how == "copy" else (copy.deepcopy(x) if how == "deepcopy" else pickle.loads(pickle.dumps(x)))

            N += [clone(rng.choice(N)) for _c in range(rng.randint(1, 3))]
            L += [clone(rng.choice(L)) for _c in range(rng.randint(1, 2))]
            O.append(clone(rng.choice(O)))
            Dd.append(clone(rng.choice(Dd)))
            rec.count("histories_with_cloned_objects")
        if rng.random() < 0.3:
            # element kinds with value equality: equal-but-distinct objects (a fresh ramp of the same name per candidate
            # capacity) - attaching one where an equal one sits replaces it like any other
            from vf import userkinds as UK

            O += [UK.NamedRamp(900.0, name="R"), UK.NamedRamp(2000.0, name="R")]
            Dd += [UK.NamedDestination(name="D"), UK.NamedDestination(name="D")]
            rec.count("histories_with_value_equal_elements")
        net = M.Network()
        st = netmon.graph_state(net)
        hist = []
        for _s in range(rng.randint(2, 12)):
            if rng.random() < 0.3:
                # the caller looks things up in between (the lookups are then memoised)
                for nm_ in rng.sample(("nodes_by_link", "links_by_name", "nodes_by_name", "origins", "destinations"), 2):
                    getattr(net, nm_)
            if st["edges"] and rng.random() < 0.15:
                # a road is closed through the graph the network hands out, and later (maybe at once, maybe by
                # a later call) put back, at the same place or elsewhere, with the same link object
                byid = {id(x): x for x in N + L}
                (uu, vv), ll = rng.choice(list(st["edges"].items()))
                if uu in byid and vv in byid and ll in byid:
                    try:
                        rng.choice((net.G, net.graph)).remove_edge(byid[uu], byid[vv])
                    except Exception as e:
                        rec.violation(f"{PROP}:an edge the construction calls put into the public graph cannot be found there again ({type(e).__name__}: the graph is not the one that was described)",
                                      {"history": [str(h_)[:80] for h_ in hist][-6:], "exception": repr(e)[:200]})
                        break
                    st = netmon.model_apply(st, ("remove_edge", byid[uu], byid[vv]))
                    rec.count("edges_removed_through_the_graph")
                    if rng.random() < 0.7:
                        u2, v2 = (byid[uu], byid[vv]) if rng.random() < 0.6 else (rng.choice(N), rng.choice(N))
                        how = rng.choice(("add_path", "add_link", "add_links"))
                        if how == "add_path":
                            net.add_path((u2, byid[ll], v2))
                        elif how == "add_link":
                            net.add_link(u2, byid[ll], v2)
                        else:
                            net.add_links([(u2, byid[ll], v2)])
                        st = netmon.model_apply(st, ("add_link", u2, byid[ll], v2))
                        rec.count("removed_links_put_back")
                        if not netmon.compare_state(rec, PROP, netmon.graph_state(net), st, (how + " of a link that had been removed through the graph",)):
                            break
            if (st["org"] or st["dst"]) and rng.random() < 0.12:
                # an attachment (or its whole node) is removed through the graph, and the stretch is rebuilt with
                # the very same origin / destination object through add_path or add_origin / add_destination
                byid = {id(x): x for x in N + L + O + Dd}
                what = rng.choice([w_ for w_, tab_ in (("origin", st["org"]), ("destination", st["dst"])) if tab_])
                nid_, eid_ = rng.choice(list((st["org"] if what == "origin" else st["dst"]).items()))
                if nid_ in byid and eid_ in byid:
                    n_, e_ = byid[nid_], byid[eid_]
                    if rng.random() < 0.6:
                        # routes are added piecewise, each naming the boundary element of its end node again
                        o2, l2_ = rng.choice(N), rng.choice(L)
                        if what == "origin":
                            net.add_path((n_, l2_, o2), origin=e_)
                            st = netmon.model_apply(st, ("add_path", [n_, l2_, o2], e_, None))
                        else:
                            net.add_path((o2, l2_, n_), destination=e_)
                            st = netmon.model_apply(st, ("add_path", [o2, l2_, n_], None, e_))
                    if rng.random() < 0.5:
                        rng.choice((net.G, net.graph)).remove_node(n_)
                        st = netmon.model_apply(st, ("remove_node", n_))
                    else:
                        del net.G.nodes[n_][what]
                        st = netmon.model_apply(st, ("detach", n_, what))
                    rec.count("attachments_removed_through_the_graph")
                    if rng.random() < 0.8:
                        other = rng.choice(N)
                        lk_ = rng.choice(L)
                        how = rng.choice(("add_path", "add_path", "direct"))
                        if how == "direct":
                            (net.add_origin if what == "origin" else net.add_destination)(e_, n_)
                            st = netmon.model_apply(st, ("add_origin" if what == "origin" else "add_destination", e_, n_))
                        elif what == "origin":
                            net.add_path((n_, lk_, other), origin=e_)
                            st = netmon.model_apply(st, ("add_path", [n_, lk_, other], e_, None))
                        else:
                            net.add_path((other, lk_, n_), destination=e_)
                            st = netmon.model_apply(st, ("add_path", [other, lk_, n_], None, e_))
                        if not netmon.compare_state(rec, PROP, netmon.graph_state(net), st, (how + " re-attaching what had been removed through the graph",)):
                            break
            if rng.random() < 0.15:
                # an object that may already be in the network gets another name (a plain public attribute):
                # it is still the same node / link / origin for every later call
                x = rng.choice(N + L + O + Dd)
                x.name = rng.choice(("junction (km 12.5)", "N0", "x", "", x.name + "'"))
                rec.count("renames_between_construction_calls")
            kind = rng.choice(("add_node", "add_nodes", "add_link", "add_link", "add_links", "add_origin",
                               "add_destination", "add_path"))
            if kind == "add_node":
                op = ("add_node", rng.choice(N))
                D.callform(net.add_node, D.ORDER["add_node"], {"node": op[1]}, 1)
            elif kind == "add_nodes":
                op = ("add_nodes", rng.sample(N, rng.randint(0, len(N))))
                form = rng.choice(("list", "tuple", "iter", "gen", "view of another network", "graph nodes of another network", "dict keys", "set"))
                rec.seen("bulk_argument_forms", ("add_nodes", form))
                if form in ("view of another network", "graph nodes of another network"):
                    # the nodes of an existing network handed over as they are (`corridor.add_nodes(whole.nodes)`): the NODES are
                    # added - what the other network attached to them or stored on them stays there
                    other = M.Network(name="other").add_nodes(op[1])
                    for j_, n_ in enumerate(op[1]):
                        if j_ % 2 == 0:
                            other.add_origin(M.MeteredOnRamp(1500.0, name=f"oo{j_}"), n_)
                        else:
                            other.add_destination(M.Destination(name=f"od{j_}"), n_)
                        other.G.nodes[n_]["pos"] = (j_, 0.0)
                    arg = other.nodes if form.startswith("view") else other.G.nodes
                else:
                    arg = {"list": list(op[1]), "tuple": tuple(op[1]), "iter": iter(list(op[1])), "gen": (x for x in op[1]),
                           "dict keys": {x: i_ for i_, x in enumerate(op[1])}, "set": set(op[1])}[form]
                D.callform(net.add_nodes, D.ORDER["add_nodes"], {"nodes": arg}, 1)
            elif kind == "add_link":
                op = ("add_link", rng.choice(N), rng.choice(L), rng.choice(N))
                D.callform(net.add_link, D.ORDER["add_link"], {"node_up": op[1], "link": op[2], "node_down": op[3]}, 3)
            elif kind == "add_links":
                trip = [(rng.choice(N), rng.choice(L), rng.choice(N)) for _t in range(rng.randint(0, 3))]
                op = ("add_links", trip)
                form = rng.choice(("list", "tuple", "iter", "gen", "zip"))
                rec.seen("bulk_argument_forms", ("add_links", form))
                if form == "zip":
                    arg = zip([t[0] for t in trip], [t[1] for t in trip], [t[2] for t in trip])
                else:
                    arg = {"list": list(trip), "tuple": tuple(trip), "iter": iter(list(trip)), "gen": (t for t in trip)}[form]
                D.callform(net.add_links, D.ORDER["add_links"], {"links": arg}, 1)
            elif kind == "add_origin":
                op = ("add_origin", rng.choice(O), rng.choice(N))
                D.callform(net.add_origin, D.ORDER["add_origin"], {"origin": op[1], "node": op[2]}, 2)
            elif kind == "add_destination":
                op = ("add_destination", rng.choice(Dd), rng.choice(N))
                D.callform(net.add_destination, D.ORDER["add_destination"], {"destination": op[1], "node": op[2]}, 2)
            else:
                ln = rng.choice((3, 3, 5, 7))
                path = [rng.choice(N) if i % 2 == 0 else rng.choice(L) for i in range(ln)]
                if len(L) >= 2 and rng.random() < 0.25:
                    # a route that comes back over a stretch it (or an earlier call) has already laid, with
                    # another link object in between: the last link given for an edge is the one that stays
                    u_, v_ = rng.choice(N), rng.choice(N)
                    a_, b_ = rng.sample(L, 2)
                    c_ = rng.choice(L)
                    laid = [(uu, vv, ll) for (uu, vv), ll in st["edges"].items()]
                    if laid and rng.random() < 0.7:  # a stretch laid by an earlier call, with the link it carries
                        uu, vv, ll = rng.choice(laid)
                        byid = {id(x): x for x in N + L}
                        if uu in byid and vv in byid and ll in byid:
                            u_, v_, a_ = byid[uu], byid[vv], byid[ll]
                            others = [x for x in L if x is not a_]
                            if others:
                                b_ = rng.choice(others)
                    path = rng.choice(([u_, a_, v_, c_, u_, b_, v_, c_, u_, a_, v_], [u_, b_, v_, c_, u_, a_, v_]))
                    rec.count("paths_revisiting_an_edge")
                o = rng.choice(O) if rng.random() < 0.4 else None
                d = rng.choice(Dd) if rng.random() < 0.4 else None
                op = ("add_path", path, o, d)
                D.callform(net.add_path, D.ORDER["add_path"], {"path": path, "origin": o, "destination": d}, 1)
            if op[0] == "add_path" and rng.random() < 0.2:
                # a road tree walked depth-first: while a lazy path is being consumed it lays a branch (another
                # add_path on the same network, from fresh objects so that nothing is replaced) and goes on
                u0 = rng.choice(N)
                trunk = [u0, M.Link(1, 2, 1.0, 180.0, 33.0, 100.0, 1.8), M.Node(), M.Link(1, 2, 1.0, 180.0, 33.0, 100.0, 1.8), M.Node(),
                         M.Link(1, 2, 1.0, 180.0, 33.0, 100.0, 1.8), M.Node()]
                branch = [trunk[2], M.Link(1, 2, 1.0, 180.0, 33.0, 100.0, 1.8), M.Node(), M.Link(1, 2, 1.0, 180.0, 33.0, 100.0, 1.8), M.Node()]
                at = rng.choice((3, 4))  # the branch is laid after the junction node, or between a link and its node

                def walk():
                    for i_, p_ in enumerate(trunk):
                        if i_ == at:
                            net.add_path(iter(branch) if rng.random() < 0.5 else tuple(branch))
                        yield p_

                try:
                    net.add_path(walk())
                except Exception as e:
                    rec.violation(f"{PROP}:add_path: a well-formed lazy path that lays a branch meanwhile was rejected with {type(e).__name__}",
                                  {"exception": repr(e)[:300]})
                st = netmon.model_apply(st, op)
                st = netmon.model_apply(st, ("add_path", branch, None, None))
                op = ("add_path", trunk, None, None)
                rec.count("nested_path_constructions")
            hist.append(op[0])
            st = netmon.model_apply(st, op)
            rec.count("history_calls")
            rec.seen("history_op_kinds", op[0])
            ok = netmon.compare_state(rec, PROP, netmon.graph_state(net), st, op)
            all_nodes_are_nodes(M, net, rec, op[0])
            if not ok:
                break  # later calls would only repeat the divergence under another name
        rec.count("histories")
        if rec.counters["histories"] == 2:
            rec.sample({"history": hist})


def run(M, rec, tier, seed, k, n):
    rng = random.Random(seed * 1000 + k + 900)
    netmon.set_recorder(rec)
    netmon._STATE["prop9"] = PROP
    netmon.install_transitions(M)
    maxlen = 6 if tier == "quick" else 8
    rec.extra["path_shapes_exhaustive_up_to_length"] = maxlen
    names_in_place_of_nodes(M, rec)
    value_equal_replacements(M, rec)
    replacements_with_warnings_as_errors(M, rec)
    link_kinds_registered_late(M, rec)
    long_paths(M, rec)
    path_shapes(M, rec, rng, maxlen, k, n)
    histories(M, rec, rng, 600 if tier == "quick" else 12000)
    if k == 0:
        from vf import workloads as W

        W.repo_tests(rec, [PROP])


def finish(M, rec, write=True):
    if not rec.violations:
        kinds = rec.cover.get("transition_kinds", set())
        for kd in ("add_node", "add_nodes", "add_link", "add_links", "add_origin", "add_destination"):
            rec.gate(kd in kinds, f"transition postcondition of {kd} never evaluated")
        rec.gate(rec.counters.get("wellformed_paths_checked", 0) > 0, "no well-formed path checked")
        rec.gate(rec.counters.get("malformed_paths_rejected", 0) > 0, "no malformed path observed")
        rec.gate(rec.counters.get("monitor_internal_errors", 0) == 0, "monitor internal errors")
    rec.extra["exhaustive_subspaces"] = [f"all path shapes of length 0..{rec.extra.get('path_shapes_exhaustive_up_to_length')} over {{Node, Link, other}} x origin? x destination?"]
    return rec.finish(
        ["transition_postconditions", "path_calls", "history_calls"],
        ["path_shape_classes", "history_op_kinds"],
        rule="every path shape of length 0..L (L in coverage.path_shapes_exhaustive_up_to_length) over {Node, Link, other} x "
        "{origin?, destination?} (exhaustive), from empty and non-empty networks, iterator and tuple forms; + random "
        "construction histories (2..12 calls, single/bulk/path forms, replacements) checked after every call against a "
        "20-line model of the graph; icontract postconditions with OLD snapshots on the six simple calls; distinct = "
        "structural classes of path shapes x origin/destination presence + operation kinds",
        exhaustive=None,
        write=write,
    )
