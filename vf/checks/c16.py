"""C16 — symbolic model parameters behave like the numbers substituted for them.

Pairs of compiled functions from one description: F_sym with a random subset of
{rho_crit, v_free, a per link; C per ramp; tau, eta, kappa, delta, phi, T} made symbolic
and declared (in a random order) as function parameters, and F_num compiled from a network
whose parameters are the plain numbers.  F_sym(args, p = values) must equal F_num(args)
at all compactness levels, flow outputs included; parameter arguments trail in declared
order (one per name at level 0, one stacked vector otherwise).
"""
import copy
import math
import random

import casadi as cs
import numpy as np

from vf import compilecases as CC, desc as D, gen as G, refmodel as R, workloads as W

PROP = "C16"
WATCHDOG_S = 3000


def close(a, b):
    if math.isnan(a) or math.isnan(b):
        return math.isnan(a) and math.isnan(b)
    return a == b or abs(a - b) <= 1e-9 * (1.0 + abs(a) + abs(b)) or abs(a - b) <= 1e-9 * 2e2


def flatten(res):
    xn, q, qo = res
    out = []
    for eid in sorted(xn):
        for v in sorted(xn[eid]):
            out += [((eid, v, i), x) for i, x in enumerate(xn[eid][v])]
    for lid in sorted(q or {}):
        out += [((lid, "q", i), x) for i, x in enumerate(q[lid])]
    for oid in sorted(qo or {}):
        out.append(((oid, "q_o", 0), qo[oid]))
    return out


def perturbed(desc, pars, keys, rng, names):
    """Other parameter values for the symbolic ones (kept admissible)."""
    d2, p2 = copy.deepcopy(desc), dict(pars)
    pv = {}

    def put(name, value):
        if isinstance(name, tuple):  # entry of a stacked vector parameter
            vec = pv.setdefault(name[0], {})
            vec[name[1]] = value
        else:
            pv[name] = value

    for (eid, attr) in keys:
        f = rng.uniform(0.85, 1.15)
        if eid == "#":
            p2[attr] = pars[attr] * f
            put(names[(eid, attr)], p2[attr])
        else:
            for grp in ("links", "origins"):
                for e in d2[grp]:
                    if e["id"] == eid:
                        e[attr] = e[attr] * f
                        put(names[(eid, attr)], e[attr])
    for k_, v_ in list(pv.items()):
        if isinstance(v_, dict):
            pv[k_] = [v_[i] for i in range(len(v_))]
    return d2, p2, pv


def one(M, rec, rng, g, desc, pars, st, concat=False):
    cand = CC.candidate_params(desc, pars, geometry=True)
    keys = rng.sample(cand, rng.randint(1, min(7, len(cand))))
    # lanes and length of one link together (a corridor template), now and then
    both = [l_["id"] for l_ in desc["links"] if (l_["id"], "L") in cand and (l_["id"], "lam") in cand]
    if both and rng.random() < 0.35:
        # (preferably a link right after an on-ramp merge: its length and lanes enter the merging term as a product)
        ins_, outs_, org_, _dst = R.topology(desc)
        after_ramp = [l_["id"] for l_ in desc["links"] if l_["id"] in both and l_["up"] in org_ and ins_[l_["up"]]]
        lid_ = rng.choice(after_ramp) if (after_ramp and pars.get("delta") is not None) else rng.choice(both)
        keys = [k_ for k_ in keys if k_ not in ((lid_, "L"), (lid_, "lam"))] + [(lid_, "L"), (lid_, "lam")]
        rec.count("cases_with_lanes_and_length_of_a_link_both_symbolic")
    if concat:  # at least two element parameters, handed over as one concatenated entry
        el_ = [k_ for k_ in cand if k_[0] != "#"]
        keys = rng.sample(el_, min(len(el_), rng.randint(2, 4))) + [k_ for k_ in keys if k_[0] == "#"][:1]
    rng.shuffle(keys)
    opts = CC.random_opts(rng, 0.15) if rng.random() < 0.3 else {}
    ops = D.random_ops(desc, rng)
    T2 = None
    if rng.random() < 0.25 and not any(k_ == ("#", "T") for k_ in keys):
        T2 = rng.choice([t for t in (5.0, 7.5, 10.0, 15.0, 20.0) if abs(t / 3600.0 - pars["T"]) > 1e-9]) / 3600.0
    try:
        sym = CC.CompileCase(M, rng, desc, pars, st, keys, opts, ops=ops, stacked=("concat" if concat else rng.random() < 0.3), restep_T=T2)
        if T2 is not None:
            pars = dict(pars, T=T2)  # the numeric twin is built directly at the last sampling time
            rec.count("cases_stepped_again_with_another_sampling_time")
        if sym.parameters_modified_by_compile:
            rec.violation(f"{PROP}:to_function changed the caller's parameters mapping: the next compilation with the same mapping declares other parameters than the caller's",
                          {"desc": desc, "changed": sym.parameters_modified_by_compile[:5], "sym_type": st})
            sym.parameters_modified_by_compile = None
        if sym.stacked:
            rec.count("cases_with_one_stacked_vector_parameter")
            if sym.concatenated:
                rec.count("cases_with_one_parameter_entry_concatenated_from_single_symbols")
                rec.seen("concatenated_parameter_entries", st)
    except Exception as e:
        rec.count("symbolic_step_failed")
        rec.seen("failed", repr(e)[:100])
        return
    for k_ in keys:
        rec.seen("parameter_kinds", k_[1])
    rec.seen("n_params", len(keys))
    d2, p2, pv2 = perturbed(desc, pars, keys, rng, sym.param_name)
    variants = [("nominal", desc, pars, sym.pvalues)]
    variants.append(("perturbed", d2, p2, {k: pv2[k] for k in sym.parameters}))
    a_keys = [k_ for k_ in keys if k_[1] == "a" and not isinstance(sym.param_name.get(k_), tuple)]
    if a_keys and not opts.get("positive_init_density"):
        # a symbolic exponent evaluated at an exact integer, at a state with a (transiently) negative density:
        # the number 2 substituted for `a` gives a finite x**2 there
        d3, pv3 = copy.deepcopy(d2), dict({k: pv2[k] for k in sym.parameters})
        for (eid_, _a) in a_keys:
            val_ = float(rng.choice((2, 3, 1)))
            for l_ in d3["links"]:
                if l_["id"] == eid_:
                    l_["a"] = val_
            pv3[sym.param_name[(eid_, "a")]] = val_
        variants.append(("integer exponent, negative density", d3, p2, pv3))
        rec.count("cases_with_a_symbolic_exponent_at_an_integer")
    c_keys = [k_ for k_ in keys if k_[1] == "C" and not isinstance(sym.param_name.get(k_), tuple)]
    if c_keys:
        # a symbolic ramp capacity evaluated at infinity ("no capacity restriction") against the number float("inf")
        d4, pv4 = copy.deepcopy(d2), dict({k: pv2[k] for k in sym.parameters})
        for (eid_, _c) in c_keys:
            for o_ in d4["origins"]:
                if o_["id"] == eid_:
                    o_["C"] = math.inf
            pv4[sym.param_name[(eid_, "C")]] = math.inf
        variants.append(("infinite capacity", d4, p2, pv4))
        rec.count("cases_with_a_symbolic_capacity_at_infinity")
    for vname, dN, pN, pvals in variants:
        try:
            num = CC.CompileCase(M, rng, dN, pN, st, (), opts, ops=ops)
        except Exception as e:
            rec.count("numeric_step_failed")
            return
        for compact in (0, 1, 2):
            more_out = rng.random() < 0.6
            ctx = {"desc": desc, "pars": pars, "sym_type": st, "compact": compact, "more_out": more_out, "opts": opts,
                   "note": "declared symbolic model parameters may also be passed as keywords (see counters)",
                   "declared_parameters": list(sym.parameters), "parameter_values": pvals, "variant": vname}
            try:
                Fn = num.compile(compact, more_out)
            except Exception as e:
                rec.count("compile_failed")
                rec.seen("failed", repr(e)[:100])
                continue
            also_kw = (not more_out) and any(k_[0] == "#" for k_ in keys) and rng.random() < 0.6
            if also_kw:
                rec.count("compilations_with_declared_parameters_also_as_keywords")
            try:
                Fs = sym.compile(compact, more_out, also_keywords=also_kw)
            except Exception as e:
                kinds = sorted(set(k_[1] for k_ in keys if k_[0] == "#")) or ["element parameters"]
                rec.violation(
                    f"{PROP}:compiling with declared symbolic parameters raised {type(e).__name__} although the same network compiles "
                    f"with plain numbers (more_out={more_out}; symbolic model parameters: {','.join(kinds)})",
                    dict(ctx, exception=repr(e)[:300]))
                continue
            if sym.parameters_modified_by_compile:
                rec.violation(f"{PROP}:to_function changed the caller's parameters mapping: the next compilation with the same mapping declares other parameters than the caller's",
                              dict(ctx, changed=sym.parameters_modified_by_compile[:5], more_out=more_out))
                sym.parameters_modified_by_compile = None
            # trailing parameter arguments in declared order
            rec.count("layout_checks")
            ni = list(Fs.name_in())
            if compact <= 0:
                npar = len(sym.parameters)
                if ni[len(ni) - npar:] != list(sym.parameters) or ni[: len(ni) - npar] != list(Fn.name_in()):
                    rec.violation(f"{PROP}:compact=0: parameters are not the trailing arguments in declared order",
                                  dict(ctx, names=ni))
            else:
                szs = [Fs.size1_in(i) * Fs.size2_in(i) for i in range(Fs.n_in())]
                szn = [Fn.size1_in(i) * Fn.size2_in(i) for i in range(Fn.n_in())]
                if szs[:-1] != szn or szs[-1] != len(keys):
                    rec.violation(f"{PROP}:compact={compact}: parameters are not one trailing stacked vector 'p' of the declared size",
                                  dict(ctx, names=ni))
            if Fs.get_free():
                rec.violation(f"{PROP}:compact={compact}: function with declared parameters has free symbols", dict(ctx, free=str(Fs.get_free())))
            for _pt in range(2):
                _, vals = g.values(dN, allow_inf=False)
                if vname.startswith("integer exponent"):
                    for (eid_, _a) in a_keys:
                        i_ = rng.randrange(len(vals[eid_]["rho"]))
                        vals[eid_]["rho"][i_] = -abs(vals[eid_]["rho"][i_]) * 0.05 - 0.2
                if R.is_singular(dN, vals):
                    rec.count("skipped_singular")
                    continue
                try:
                    a = sym.call(Fs, vals, compact, more_out, pvalues=pvals)
                    b = num.call(Fn, vals, compact, more_out)
                except Exception as e:
                    rec.violation(f"{PROP}:compact={compact}: function cannot be evaluated with the documented layout ({type(e).__name__})",
                                  dict(ctx, exception=repr(e)[:300]))
                    break
                rec.count("function_pairs_evaluated")
                rec.seen("configs", (st, compact, more_out, vname))
                for (ka, x), (kb, y) in zip(flatten(a), flatten(b)):
                    rec.count("scalars_compared")
                    if not close(x, y):
                        what = ka[1] if ka[1] in ("q", "q_o") else "x+"
                        rec.violation(f"{PROP}:compact={compact}: {what} of the parametric function differs from the function compiled with numbers ({vname} values)",
                                      dict(ctx, vals=vals, where=list(ka), parametric=x, numeric=y))
                        return
                if rec.counters["function_pairs_evaluated"] == 3:
                    rec.sample({"desc": desc, "declared_parameters": list(sym.parameters), "values": pvals, "compact": compact})


def parameter_table(M, rec, rng, reps):
    """One matrix-shaped parameter symbol - a table with one row per link and the columns (critical density, free-flow speed,
    exponent) - declared as a single entry of `parameters`; the links are built from its entries: evaluated at the table of
    numbers the function behaves like the network compiled with those numbers."""
    from sym_metanet.engines.casadi import Engine as CE

    kw = dict(T=10 / 3600, tau=18 / 3600, eta=60.0, kappa=40.0)
    for it in range(reps):
        st = ("SX", "MX")[it % 2]
        XX = getattr(cs, st)
        n_l = 3
        table = np.array([[round(rng.uniform(28, 38), 1), round(rng.uniform(95, 120), 1), round(rng.uniform(1.4, 2.6), 2)] for _ in range(n_l)])
        P = XX.sym("P", n_l, 3)
        Ns = [rng.choice((1, 2, 3)) for _ in range(n_l)]

        def build(par):
            nodes = [M.Node(name=f"N{i}") for i in range(n_l + 1)]
            path = [nodes[0]]
            for i in range(n_l):
                path += [M.Link(Ns[i], 2, 1.0, 180.0, par[i, 0], par[i, 1], par[i, 2], name=f"L{i}"), nodes[i + 1]]
            net = M.Network().add_path(tuple(path), origin=M.MainstreamOrigin(name="O"), destination=M.Destination(name="D"))
            net.add_origin(M.MeteredOnRamp(2000.0, name="R"), nodes[1])
            return net

        try:
            ns, nn = build(P), build(table)
            es, en = CE(st), CE(st)
            ns.step(engine=es, **kw)
            nn.step(engine=en, **kw)
            for compact in (0, 1, 2):
                Fs = es.to_function(ns, compact=compact, more_out=True, parameters={"P": P}, **kw)
                Fn = en.to_function(nn, compact=compact, more_out=True, **kw)
                args = [cs.DM([rng.uniform(10, 60) for _ in range(Fn.size1_in(i_))]) for i_ in range(Fn.n_in())]
                a = Fn(*args)
                b = Fs(*args, cs.DM(table))
                a = list(a) if isinstance(a, (list, tuple)) else [a]
                b = list(b) if isinstance(b, (list, tuple)) else [b]
                rec.count("parameter_table_checks")
                for i_, (x_, y_) in enumerate(zip(a, b)):
                    if not np.allclose(np.asarray(x_, dtype=float), np.asarray(y_, dtype=float), rtol=1e-9, atol=1e-9, equal_nan=True):
                        rec.violation(f"{PROP}:compact={compact}: with one matrix-shaped parameter (a table, one row per link) the parametric function differs from the function compiled with the numbers",
                                      {"sym_type": st, "result": Fn.name_out()[i_], "table": table.tolist()})
                        break
        except Exception as e:
            rec.violation(f"{PROP}:a matrix-shaped parameter (a table, one row per link) declared as one entry: compiling / evaluating raised {type(e).__name__} although the network compiles with the numbers",
                          {"sym_type": st, "exception": repr(e)[:300]})


def user_kind_with_a_keyword_parameter(M, rec, rng, reps):
    """A user-defined ramp whose flow law takes one more model parameter by keyword (`q_max`, with a default); it
    travels with the step's other parameters.  Declared as a symbolic parameter it must behave like the number."""
    from sym_metanet.engines.casadi import Engine as CE
    from vf import userkinds as UK

    for it in range(reps):
        st = ("SX", "MX")[it % 2]
        XX = getattr(cs, st)
        T = 10 / 3600

        def build():
            n1, n2 = M.Node(name="A"), M.Node(name="B")
            l1 = M.Link(rng_N, 2, 1.0, 180.0, 33.5, 102.0, 1.867, name="L1")
            o = UK.CappedOnRamp(2500.0, name="O1")
            return M.Network().add_path((n1, l1, n2), origin=o, destination=M.Destination(name="D1"))

        rng_N = rng.choice((1, 2, 3))
        qsym = XX.sym("q_max")
        kw = dict(T=T, tau=18 / 3600, eta=60.0, kappa=40.0)
        try:
            ns, nn = build(), build()
            es, en = CE(st), CE(st)
            qnum = rng.choice((600.0, 1200.0, 1800.0))
            ns.step(engine=es, q_max=qsym, **kw)
            nn.step(engine=en, q_max=qnum, **kw)
            for compact in (0, 1, 2):
                Fs = es.to_function(ns, compact=compact, more_out=True, parameters={"q_max": qsym}, **kw)
                Fn = en.to_function(nn, compact=compact, more_out=True, q_max=qnum, **kw)
                args = [cs.DM([rng.uniform(10, 60) for _ in range(Fn.size1_in(i_))]) for i_ in range(Fn.n_in())]
                # a long queue and a high demand, metering open: the cap is what binds
                a = Fn(*args)
                b = Fs(*args, cs.DM(qnum))
                a = list(a) if isinstance(a, (list, tuple)) else [a]
                b = list(b) if isinstance(b, (list, tuple)) else [b]
                rec.count("user_kind_keyword_parameter_checks")
                for i_, (x_, y_) in enumerate(zip(a, b)):
                    if not np.allclose(np.asarray(x_, dtype=float), np.asarray(y_, dtype=float), rtol=1e-9, atol=1e-9, equal_nan=True):
                        rec.violation(f"{PROP}:compact={compact}: with a user-defined kind taking a declared parameter by keyword, result {Fn.name_out()[i_]} "
                                      f"of the parametric function differs from the function compiled with the number",
                                      {"sym_type": st, "q_max": qnum, "parametric": np.asarray(y_, dtype=float).ravel().tolist(),
                                       "numeric": np.asarray(x_, dtype=float).ravel().tolist()})
                        break
        except Exception as e:
            rec.violation(f"{PROP}:user kind with a keyword parameter: raised {type(e).__name__}", {"exception": repr(e)[:300]})


def run(M, rec, tier, seed, k, n):
    np.seterr(all="ignore")
    rng = random.Random(seed * 1000 + k + 1600)
    g = G.NetGen(rng)
    sh = W.shapes_cycle()
    for it in range(60 if tier == "quick" else 450):
        shape = next(sh)
        desc = g.all_kinds_network() if it % 5 == 0 else g.network(shape)[1]
        pars = g.pars(delta=True if it % 2 == 0 else None, phi=True if it % 3 == 0 else None)
        for st in ("SX", "MX"):
            one(M, rec, rng, g, desc, pars, st, concat=(it % 5 == 3))
    user_kind_with_a_keyword_parameter(M, rec, rng, 12 if tier == "quick" else 100)
    parameter_table(M, rec, rng, 12 if tier == "quick" else 100)


def finish(M, rec, write=True):
    if not rec.violations:
        pk = rec.cover.get("parameter_kinds", set())
        for p in ("rho_crit", "v_free", "a", "C", "tau", "eta", "kappa", "delta", "T"):
            rec.gate(p in pk, f"parameter {p} never made symbolic")
        cf = rec.cover.get("configs", set())
        for st in ("SX", "MX"):
            for c in (0, 1, 2):
                rec.gate(any(s.startswith(f"('{st}', {c},") for s in cf), f"{st}/compact={c} never evaluated")
        rec.gate(rec.counters.get("compilations_with_declared_parameters_also_as_keywords", 0) > 0,
                 "README-style call (declared parameter also passed as keyword) never exercised")
        rec.gate(rec.counters.get("symbolic_step_failed", 0) + rec.counters.get("compile_failed", 0) + rec.counters.get("numeric_step_failed", 0)
                 <= 0.02 * max(1, rec.counters.get("function_pairs_evaluated", 0)), "too many cases failed to compile (see C07)")
    return rec.finish(
        "function_pairs_evaluated",
        ["configs", "parameter_kinds", "n_params"],
        rule="random valid networks; 1..7 parameters out of {rho_crit, v_free, a per link; C per ramp; tau, eta, kappa, delta, phi, T} made "
        "symbolic and declared in random order; SX and MX; compact 0/1/2; random more_out and positivity options; evaluated at the nominal "
        "parameter values and at perturbed values (numeric twin rebuilt with the perturbed numbers); distinct = configurations + "
        "parameter kinds + parameter counts",
        write=write,
    )
