"""C08 — name and membership lookups always reflect the current network.

(a) invariant at a hook: icontract class invariant on ``Network`` — after every public
call every memo entry in ``net.__dict__`` equals its recomputation from the raw graph;
(b) after every call of every history all public lookups are read and compared with the
ground truth and with a fresh twin network.  Histories over a small universe, exhaustive
to a depth bound and random beyond it, with read-all and random-subset read schedules.
"""
import itertools
import random

from vf import netmon

PROP = "C08"
WATCHDOG_S = 3000


class Universe:
    def __init__(self, M, clash=False, clones=False):
        self.M = M
        self.N = [M.Node(name=f"N{i}") for i in range(3)]
        if clones:  # the second and third node are clones of the first (same content, other objects)
            import copy
            import pickle

            self.N[1] = copy.deepcopy(self.N[0])
            self.N[2] = pickle.loads(pickle.dumps(self.N[0]))
        ln = ["La", "Lb", "La" if clash else "Lc"]
        self.L = [M.Link(1 + i, 2, 1.0, 180.0, 33.0, 100.0, 1.8, name=ln[i]) for i in range(3)]
        self.O = [M.MeteredOnRamp(2000.0, name="Oa"), M.Origin(name="Oa" if clash else "Ob")]
        self.D = [M.Destination(name="Da"), M.CongestedDestination(name="Da" if clash else "Db")]
        self._side = None

    def side(self):
        """The second network of the current history (filled by streaming generators)."""
        if self._side is None:
            self._side = self.M.Network(name="side")
        return self._side


def reading(net, items, which=None):
    """A lazy iterable that looks the network up while a bulk/path call is consuming it (a user
    filtering or resolving what to add against the network being built)."""
    for it in items:
        for m in (which or netmon.MEMOS):
            getattr(net, m)
        yield it


def reading_then_failing(net, items, bad):
    """Like `reading`, but the last row is malformed / the generator raises after some items went in (a
    typo in a name table): the call fails half-way and the user carries on with the same network."""
    for it in items:
        for m in netmon.MEMOS:
            getattr(net, m)
        yield it
    if bad == "raise":
        raise KeyError("no such node in the table")
    yield bad


def building(net, items, nested):
    """A lazy iterable that goes on BUILDING the same network while a bulk call consumes it (a generator that
    creates the nodes of a stretch and attaches the on-ramp / destination of each node as it yields it)."""
    for i, it in enumerate(items):
        if i < len(nested):
            nested[i](net)
        yield it


def streaming_two(net, side, method, items, side_items):
    """A lazy iterable that builds a SECOND network with the same construction call while the first one consumes it,
    reading the first one's lookups as it goes (one pass over a road table that fills a detailed and a coarse network)."""
    for i, it in enumerate(items):
        for m in netmon.MEMOS:
            getattr(net, m)
        if i < len(side_items):
            getattr(side, method)(side_items[i])
        yield it


def alphabet(U):
    """~60 mutating calls as (kind, callable(net), description)."""
    N, L, O, D = U.N, U.L, U.O, U.D
    ops = []
    ops.append(("add_links", lambda net: net.add_links(building(net, [(N[0], L[0], N[1]), (N[1], L[1], N[2])],
                                                                [lambda n_: n_.add_origin(O[0], N[0]), lambda n_: n_.add_destination(D[0], N[2])])),
                ("add_links", "generator that attaches an origin and a destination meanwhile")))
    ops.append(("add_nodes", lambda net: net.add_nodes(building(net, [N[0], N[1], N[2]],
                                                                [lambda n_: n_.add_link(N[0], L[2], N[1]), lambda n_: n_.add_origin(O[1], N[1]),
                                                                 lambda n_: n_.add_destination(D[1], N[2])])),
                ("add_nodes", "generator that adds a link, an origin and a destination meanwhile")))
    ops.append(("add_path", lambda net: net.add_path(building(net, (N[0], L[0], N[1], L[1], N[2]),
                                                              [lambda n_: None, lambda n_: None, lambda n_: n_.add_path((N[1], L[2], N[0]), origin=O[0])])),
                ("add_path", "generator that lays another path meanwhile")))
    ops.append(("add_links", lambda net: net.add_links(streaming_two(net, U.side(), "add_links", [(N[0], L[0], N[1]), (N[1], L[1], N[2])],
                                                                     [[(N[0], L[2], N[2])], [(N[2], L[0], N[1])]])),
                ("add_links", "generator filling a second network with add_links meanwhile")))
    ops.append(("add_nodes", lambda net: net.add_nodes(streaming_two(net, U.side(), "add_nodes", [N[0], N[1], N[2]], [[N[2]], [N[0]]])),
                ("add_nodes", "generator filling a second network with add_nodes meanwhile")))
    ops.append(("add_path", lambda net: net.add_path(streaming_two(net, U.side(), "add_path", (N[0], L[0], N[1], L[1], N[2]),
                                                                   [(N[1], L[2], N[2]), (N[2], L[2], N[0])])),
                ("add_path", "generator laying a path in a second network meanwhile")))
    ops.append(("add_nodes!", lambda net: net.add_nodes(reading_then_failing(net, [N[0], N[1]], "raise")),
                ("add_nodes", "reading generator that raises after 0,1")))
    ops.append(("add_links!", lambda net: net.add_links(reading_then_failing(net, [(N[0], L[0], N[1]), (N[1], L[1], N[2])], "raise")),
                ("add_links", "reading generator that raises after 0a1,1b2")))
    ops.append(("add_links!", lambda net: net.add_links(reading_then_failing(net, [(N[2], L[2], N[0])], (N[0], L[0]))),
                ("add_links", "reading generator with a malformed last row")))
    ops.append(("add_nodes", lambda net: net.add_nodes(reading(net, N)), ("add_nodes", "generator reading the lookups 0,1,2")))
    ops.append(("add_links", lambda net: net.add_links(reading(net, [(N[0], L[0], N[1]), (N[1], L[1], N[2])])),
                ("add_links", "generator reading the lookups 0a1,1b2")))
    ops.append(("add_links", lambda net: net.add_links(t for t in [(N[2], L[2], N[0]), (N[0], L[0], N[1]), (N[1], L[1], N[2])]
                                                       if t[1].name not in net.links_by_name),
                ("add_links", "generator skipping names already in links_by_name")))
    ops.append(("add_path", lambda net: net.add_path(reading(net, (N[0], L[0], N[1], L[1], N[2]))), ("add_path", "generator reading the lookups 0a1b2")))
    ops.append(("add_path", lambda net: net.add_path(reading(net, (N[1], L[2], N[2]), ("nodes_by_name", "links_by_name", "origins", "destinations")),
                                                     origin=O[0], destination=D[0]), ("add_path", "reading generator 1c2+O0+D0")))
    # every argument written by keyword
    ops.append(("add_node", lambda net: net.add_node(node=N[2]), ("add_node", "node=2")))
    ops.append(("add_nodes", lambda net: net.add_nodes(nodes=[N[0], N[1]]), ("add_nodes", "nodes=(0, 1)")))
    ops.append(("add_link", lambda net: net.add_link(node_up=N[0], link=L[0], node_down=N[1]), ("add_link", "node_up=0, link=a, node_down=1")))
    ops.append(("add_links", lambda net: net.add_links(links=[(N[1], L[1], N[2])]), ("add_links", "links=[1b2]")))
    ops.append(("add_origin", lambda net: net.add_origin(origin=O[0], node=N[0]), ("add_origin", "origin=0, node=0")))
    ops.append(("add_destination", lambda net: net.add_destination(destination=D[0], node=N[2]), ("add_destination", "destination=0, node=2")))
    for i in range(3):
        ops.append(("add_node", lambda net, i=i: net.add_node(N[i]), ("add_node", i)))
    ops.append(("add_nodes", lambda net: net.add_nodes([N[0], N[2]]), ("add_nodes", (0, 2))))
    ops.append(("add_nodes", lambda net: net.add_nodes(N), ("add_nodes", (0, 1, 2))))
    ops.append(("add_nodes", lambda net: net.add_nodes(n for n in N), ("add_nodes", "generator 0,1,2")))
    ops.append(("add_nodes", lambda net: net.add_nodes(iter([N[1], N[2]])), ("add_nodes", "iterator 1,2")))
    for (k, i, j) in ((0, 0, 1), (1, 1, 2), (2, 0, 2), (0, 1, 2), (1, 0, 1), (2, 2, 0), (0, 1, 1), (2, 0, 1)):
        ops.append(("add_link", lambda net, k=k, i=i, j=j: net.add_link(N[i], L[k], N[j]), ("add_link", i, k, j)))
    ops.append(("add_links", lambda net: net.add_links([(N[0], L[0], N[1]), (N[1], L[1], N[2])]), ("add_links", "01,12")))
    ops.append(("add_links", lambda net: net.add_links([(N[0], L[2], N[1])]), ("add_links", "0-2-1")))
    ops.append(("add_links", lambda net: net.add_links(t for t in [(N[1], L[0], N[2]), (N[2], L[2], N[0])]), ("add_links", "generator 1a2,2c0")))
    ops.append(("add_links", lambda net: net.add_links(zip([N[0]], [L[1]], [N[2]])), ("add_links", "zip 0b2")))
    ops.append(("add_links", lambda net: net.add_links([(N[2], L[1], N[0]), (N[0], L[1], N[2])]), ("add_links", "shared")))
    for k in range(2):
        for i in range(3):
            ops.append(("add_origin", lambda net, k=k, i=i: net.add_origin(O[k], N[i]), ("add_origin", k, i)))
            ops.append(("add_destination", lambda net, k=k, i=i: net.add_destination(D[k], N[i]), ("add_destination", k, i)))
    ops.append(("add_path", lambda net: net.add_path((N[0], L[0], N[1], L[1], N[2])), ("add_path", "0a1b2")))
    ops.append(("add_path", lambda net: net.add_path((N[0], L[2], N[1]), origin=O[0]), ("add_path", "0c1+O0")))
    ops.append(("add_path", lambda net: net.add_path((N[1], L[1], N[2]), destination=D[1]), ("add_path", "1b2+D1")))
    ops.append(("add_path", lambda net: net.add_path((N[2], L[0], N[0]), origin=O[1], destination=D[0]), ("add_path", "2a0+O1+D0")))
    ops.append(("add_path", lambda net: net.add_path((N[0], L[1], N[0])), ("add_path", "0b0")))
    ops.append(("add_path!", lambda net: net.add_path((N[0], L[1])), ("add_path", "malformed 0b")))
    ops.append(("add_path!", lambda net: net.add_path((N[1], L[0], N[2], N[0])), ("add_path", "malformed 1a20")))
    return ops


READS = list(netmon.MEMOS) + ["links", "per_node"]


def group_reads(M, net, rec, U, desc):
    """Entering / leaving links asked for a GROUP of nodes (tuple, frozenset, list), the same groups after
    every call - some of the nodes only join the network later."""
    from vf import extract as X

    G_ = X.raw_graph(net)
    for grp in ((U.N[0], U.N[2]), (U.N[1], U.N[2]), frozenset((U.N[0], U.N[1])), [U.N[2], U.N[0]]):
        inside = [n_ for n_ in grp if any(n_ is m_ for m_ in G_._node)]
        exp_in = sorted(id(d_["link"]) for u_, nb_ in G_._succ.items() for w_, d_ in nb_.items() if any(w_ is n_ for n_ in inside))
        exp_out = sorted(id(d_["link"]) for u_, nb_ in G_._succ.items() for w_, d_ in nb_.items() if any(u_ is n_ for n_ in inside))
        for what, view, exp in (("entering", net.in_links, exp_in), ("leaving", net.out_links, exp_out)):
            rec.count("group_link_reads")
            try:
                got = sorted(id(t_[-1]) for t_ in view(grp))
            except Exception as e:
                rec.violation(f"{PROP}:links {what} a group of nodes ({type(grp).__name__}) cannot be read ({type(e).__name__})", {"op": desc})
                continue
            if got != exp:
                rec.violation(f"{PROP}:links {what} a group of nodes ({type(grp).__name__}) disagree with the graph after {netmon._opkind(desc)}",
                              {"op": desc, "returned": len(got), "in_graph": len(exp)})


def run_history(M, rec, U, ops, seq, rng, read_all=True, subclass=False):
    net = M.Network()
    if subclass or (not read_all and rng.random() < 0.4):
        from vf import userkinds as UK

        net = UK.Motorway()  # a user-defined Network subclass: the lookups are inherited
        rec.count("histories_on_a_network_subclass")
    netmon.new_history()
    U._side = None
    for kind, fn, desc in seq:
        before = [m for m in netmon.MEMOS if m in net.__dict__]
        netmon.set_last_op(desc)
        try:
            fn(net)
        except Exception:
            rec.count("calls_raised")
        rec.count("mutating_calls")
        for m in before:
            rec.seen("memo_x_op", (m, kind.rstrip("!")))
        group_reads(M, net, rec, U, desc)
        if read_all:
            netmon.check_lookups(M, net, rec, PROP, None, desc)
            netmon.twin_compare(M, net, rec, PROP, desc)
        else:
            sub = set(rng.sample(READS, rng.randint(0, 4)))
            netmon.check_lookups(M, net, rec, PROP, sub, desc)
    # final read-all
    netmon.check_lookups(M, net, rec, PROP, None, ("final",))
    if U._side is not None:
        rec.count("second_networks_filled_meanwhile")
        netmon.check_lookups(M, U._side, rec, PROP, None, ("second network",))
    if not read_all and rng.random() < 0.25:
        # a deep copy / pickle round-trip (memoised lookups travel with it) is a network of its own
        import copy
        import pickle

        form = rng.choice(("deepcopy", "pickle", "copy"))
        try:
            n2 = copy.deepcopy(net) if form == "deepcopy" else (pickle.loads(pickle.dumps(net)) if form == "pickle" else copy.copy(net))
        except Exception as e:
            rec.violation(f"{PROP}:a network cannot be copied ({type(e).__name__})", {"history": [s_[2] for s_ in seq]})
            n2 = None
        if n2 is not None:
            rec.count("copied_networks_checked")
            rec.seen("copy_forms", form)
            netmon.check_lookups(M, n2, rec, PROP, None, ("copy",))
            try:
                nodes2 = list(n2.nodes)
                up = rng.choice(nodes2) if nodes2 and rng.random() < 0.6 else M.Node(name="Nx")
                dn = rng.choice(nodes2) if nodes2 and rng.random() < 0.6 else M.Node(name="Ny")
                n2.add_link(up, M.Link(1, 2, 1.0, 180.0, 33.0, 100.0, 1.8, name="Lx"), dn)
            except Exception:
                rec.count("calls_raised")
            netmon.check_lookups(M, n2, rec, PROP, None, ("copy + add_link",))
            if form != "copy":  # a shallow copy may share the graph with the original: only the object that
                # received the call is looked at
                netmon.check_lookups(M, net, rec, PROP, None, ("original after its copy was extended",))
    rec.count("histories")


def run(M, rec, tier, seed, k, n):
    rng = random.Random(seed * 1000 + k + 800)
    netmon.set_recorder(rec)
    netmon._STATE["prop8"] = PROP
    netmon.install_invariant(M)
    U = Universe(M)
    ops = alphabet(U)
    rec.extra["alphabet_size"] = len(ops)
    depth = 2 if tier == "quick" else 3
    rec.extra["exhaustive_depth"] = depth
    i = 0
    for d in range(1, depth + 1):
        for seq in itertools.product(ops, repeat=d):
            i += 1
            if i % n != k:
                continue
            run_history(M, rec, U, ops, seq, rng, read_all=True)
            if rec.counters["histories"] in (3, 700):
                rec.sample({"history": [s[2] for s in seq], "reads": "all lookups after every call"})
    rec.count("exhaustive_histories", rec.counters.get("histories", 0))
    # the same on a user-defined Network subclass that keeps a lookup of its own fresh with the library's decorator on an
    # overridden construction call: every pair of calls that involves origins, paths or single links
    sub = [o_ for o_ in ops if o_[0].rstrip("!") in ("add_origin", "add_path", "add_link", "add_destination")]
    i = 0
    for seq in itertools.product(sub, repeat=2):
        i += 1
        if i % n != k or (tier == "quick" and i % 3):
            continue
        run_history(M, rec, U, ops, seq, rng, read_all=True, subclass=True)
        rec.count("histories_on_a_network_subclass_all_pairs")
    # random, longer, with clashing names / shared objects and random read subsets
    for r in range(300 if tier == "quick" else 6000):
        Uc = Universe(M, clash=(r % 3 == 0), clones=(r % 5 == 1))
        opsc = alphabet(Uc)
        seq = [rng.choice(opsc) for _ in range(rng.randint(3, 12 if tier == "quick" else 20))]
        run_history(M, rec, Uc, opsc, seq, rng, read_all=(r % 2 == 0))
        rec.count("random_histories")
        if r == 1:
            rec.sample({"history": [s[2] for s in seq], "reads": "random subsets"})
    if k == 0:
        from vf import workloads as W

        W.repo_tests(rec, [PROP])


def finish(M, rec, write=True):
    if not rec.violations:
        pairs = rec.cover.get("memo_x_op", set())
        kinds = ("add_node", "add_nodes", "add_link", "add_links", "add_origin", "add_destination", "add_path")
        missing = [(m, kd) for m in netmon.MEMOS for kd in kinds if repr((m, kd)) not in pairs]
        rec.gate(not missing, f"(lookup memoised before, mutating call) pairs never exercised: {missing[:5]}")
        rec.gate(rec.counters.get("invariant_evals", 0) > 0, "class invariant never evaluated with a memo present")
        rec.gate(rec.counters.get("monitor_internal_errors", 0) == 0, "monitor internal errors")
    rec.extra["exhaustive_subspaces"] = [f"all histories of length <= {rec.extra.get('exhaustive_depth')} over the {rec.extra.get('alphabet_size')}-call alphabet, all lookups read after every call"]
    return rec.finish(
        ["lookup_reads", "memo_entries_checked", "twin_attribute_comparisons"],
        ["memo_x_op"],
        rule="construction histories over a universe of 3 nodes, 3 links, 2 origins, 2 destinations with an alphabet of "
        "coverage.alphabet_size mutating calls (single, bulk, path, replacements, malformed paths), exhaustive to depth "
        "coverage.exhaustive_depth with all lookups read after every call, + random histories of length 3..12 (every third "
        "with clashing names) with read-all or random-subset schedules; oracle = recomputation from the raw graph + fresh "
        "twin; distinct = (lookup memoised before the call, kind of mutating call) pairs exercised",
        exhaustive=None,
        assumptions=["where element objects or names are shared the maps are only required to be sound and key-complete"],
        write=write,
    )
