"""C19 — a function is only produced for a fully initialised and stepped network.

Histories over {add/replace element, el.init_vars, el.step, net.step, compile} on a small
universe, checked against a 40-line model: per element "initialised?", the generation of its
symbols and, for its last step, the generations of itself and of every element its update
reads.  Expected: ``RuntimeError`` iff some element with declared variables is not
initialised, or some element with states is not stepped, or some last step is stale w.r.t.
a re-initialisation (or replacement) of something it read; otherwise a function without
free symbols whose value for every element equals the reference on the topology of that
element's last step.
"""
import itertools
import math
import random

import casadi as cs
import numpy as np

from vf import extract as X, gen as G, refmodel as R, selfcheck
from vf.desc import var_layout
from vf.env import Inconclusive

PROP = "C19"
WATCHDOG_S = 3000
PARS = {"T": 10 / 3600, "tau": 18 / 3600, "eta": 60.0, "kappa": 40.0, "delta": 0.0122, "phi": 1.8}
KW = {k: v for k, v in PARS.items()}
PARS_ALT = {"T": 5 / 3600, "tau": 25 / 3600, "eta": 30.0, "kappa": 55.0, "delta": 0.8, "phi": 1.0}


class World:
    """The live objects + the model."""

    def __init__(self, M, st, rng, ideal_first_origin=None, clash_names=None):
        from sym_metanet.engines.casadi import Engine as CE

        self.M, self.st, self.rng = M, st, rng
        self.eng = CE(st)
        mk = lambda N, lam, nm: M.Link(N, lam, 1.0, 180.0, 33.0 + N, 100.0 + lam, 1.8 + 0.1 * N, name=nm)  # noqa: E731
        self.N = [M.Node(name=f"N{i}") for i in range(6)]
        self.L1, self.L2, self.L3, self.L0 = mk(2, 3, "L1"), mk(1, 2, "L2"), mk(2, 2, "L3"), mk(1, 1, "L0")
        if rng.random() < 0.3:
            # integer way ids as names: an element's name is the caller's label, whatever its type
            self.L3.name, self.L1.name = 4401, 4400
            self.int_names = True
        self.L1b = M.LinkWithVsl(2, 3, 1.0, 180.0, 34.0, 105.0, 1.9, name="L1b", segments_with_vsl={1}, alpha=0.1)
        ideal = (rng.random() < 0.3) if ideal_first_origin is None else ideal_first_origin
        self.O1 = M.Origin(name="O1") if ideal else M.MeteredOnRamp(3000.0, name="O1")  # sometimes variable-less
        pr = (lambda p_: rng.random() < p_) if clash_names is None else (lambda p_: (rng.random() < 2.0) and clash_names)
        self.O1b = M.MainstreamOrigin(name=("L0" if pr(0.3) else "O1b"))
        # names may clash with other elements' names (uniqueness is by object, not by name)
        clash = pr(0.5)
        self.O2 = M.SimplifiedMeteredOnRamp(2000.0, name=(9001 if getattr(self, "int_names", False) else ("L2" if clash else "O2")))
        # kinds vary between worlds (elements with only disturbances / only states / no variables)
        self.D1 = (M.CongestedDestination if rng.random() < 0.6 else M.Destination)(name="D1")
        self.D1b = (M.CongestedDestination if rng.random() < 0.7 else M.Destination)(name="D1b")
        # an off-ramp link named after the place it leads to: the (variable-less, hence always ready)
        # destination of the branch may carry the name of the branch link
        self.D2 = M.Destination(name=("L3" if pr(0.4) else "D2"))
        self.D2b = M.CongestedDestination(name=("O1" if pr(0.3) else "D2b"))
        # a user-defined destination kind that owns a state (README "Extensions"); only the public
        # element-level step advances it
        from vf import userkinds as UK

        self.D1u = UK.BufferedDestination(name="D1u")
        self.O1g = UK.GatedOrigin(name="O1g")  # state-less, owns an action
        self.O1d = UK.OptionalDemandOrigin(name="O1d")  # state-less, declares a disturbance on the INSTANCE
        self.net = M.Network().add_path((self.N[0], self.L1, self.N[1], self.L2, self.N[2], self.L0, self.N[5]),
                                        origin=self.O1, destination=self.D1)
        # model
        self.gen = {}       # id(el) -> generation or absent
        self.stepinfo = {}  # id(el) -> {"deps": {id(dep): gen}, "desc": desc, "objmap": objmap}
        self.counter = itertools.count(1)
        self.hist = []
        self.numeric = False
        # repeated compilations of one history use the same configuration (a memo of compiled
        # functions would be hit)
        self.compact = rng.choice((0, 0, 1, 2))
        # the function may be requested from the stepping engine object, another object of the same symbol
        # type, or an engine of the other symbol type (e.g. `sym_metanet.engine.to_function` after a switch)
        r_ = rng.random()
        self.compile_eng_kind = "same object" if r_ < 0.6 else ("other object, same type" if r_ < 0.8 else "other symbol type")
        self.compile_eng = self.eng if r_ < 0.6 else (CE(st) if r_ < 0.8 else CE("MX" if st == "SX" else "SX"))

    # ----- live helpers
    def elements(self):
        G_ = X.raw_graph(self.net)
        els = [d["link"] for u in G_.nodes for _, d in G_.succ[u].items()]
        els += [G_.nodes[n]["origin"] for n in G_.nodes if "origin" in G_.nodes[n]]
        els += [G_.nodes[n]["destination"] for n in G_.nodes if "destination" in G_.nodes[n]]
        return els

    def declared(self, el):
        return bool(el._states or el._actions or el._disturbances)

    def deps_of(self, el):
        """Elements whose variables the update of `el` reads (by object), from the raw graph."""
        M = self.M
        G_ = X.raw_graph(self.net)
        deps = [el]
        if isinstance(el, M.Link):
            for u in G_.nodes:
                for w, d in G_.succ[u].items():
                    if d["link"] is el:
                        deps += [G_.pred[u][p]["link"] for p in G_.pred[u]]
                        if "origin" in G_.nodes[u]:
                            deps.append(G_.nodes[u]["origin"])
                        if "destination" in G_.nodes[w] and isinstance(G_.nodes[w]["destination"], M.CongestedDestination):
                            deps.append(G_.nodes[w]["destination"])  # the only kind whose variable a link reads
                        else:
                            deps += [G_.succ[w][s]["link"] for s in G_.succ[w]]
        else:
            for n in G_.nodes:
                if G_.nodes[n].get("origin") is el:
                    deps += [G_.succ[n][s]["link"] for s in G_.succ[n]]
        return [d for d in deps if self.declared(d)]

    # ----- operations (each returns a label)
    def op_init(self, el):
        el.init_vars(engine=self.eng)
        self.gen[id(el)] = next(self.counter)

    def op_init_numeric(self, el):
        """First initialisation with the element's STATES held at numbers (casadi.DM: a boundary link kept at measured
        conditions); its actions / disturbances are created as symbols.  An element is as uninitialised / unstepped as any
        other afterwards; only the size and value comparisons are left out for such worlds."""
        if id(el) in self.gen or not el._states:
            return self.op_init(el)
        n_ = getattr(el, "N", 1) if isinstance(el, self.M.Link) else 1
        ic = {nm: cs.DM([self.rng.uniform(5.0, 60.0) for _ in range(n_)]) for nm in sorted(el._states)}
        if isinstance(el, self.M.LinkWithVsl):
            # (a speed-limited link with numeric states and SYMBOLIC limits cannot be stepped on the unchanged tree - the
            # limited equilibrium speeds are written into the numeric vector; its limits are numbers as well here)
            ic["v_ctrl"] = cs.DM([self.rng.uniform(40.0, 120.0) for _ in el.vsl])
        el.init_vars(init_conditions=ic, engine=self.eng)
        self.gen[id(el)] = next(self.counter)
        self.numeric = True

    def op_drop_next(self, el):
        """The caller takes the results away by hand (the documented empty value), e.g. after editing a parameter, so that a
        forgotten re-step is reported."""
        el.next_states = None
        self.stepinfo.pop(id(el), None)

    def op_reset(self, el):
        """A full reset of an element by hand."""
        el.states = el.next_states = el.actions = el.disturbances = None
        self.stepinfo.pop(id(el), None)
        self.gen.pop(id(el), None)

    def op_reinit_same(self, el):
        if id(el) not in self.gen:
            return self.op_init(el)
        ic = {}
        for grp in (el.states, el.actions, el.disturbances):
            if grp:
                ic.update(grp)
        el.init_vars(init_conditions=ic, engine=self.eng)

    def op_stepel(self, el):
        if not el._states:
            el.step(net=self.net, engine=self.eng, **KW)  # documented no-op for state-less elements
            return None
        deps = self.deps_of(el)
        ready = all(id(d) in self.gen for d in deps)
        try:
            el.step(net=self.net, engine=self.eng, **KW)
            ok = True
        except Exception:
            ok = False
        if ok and not ready:
            return "stepped-although-a-read-element-was-uninitialised"
        if not ok and ready:
            return "step-raised-although-everything-it-reads-is-initialised"
        if ok and el._states:
            desc, objmap = X.extract(self.M, self.net)
            # an element-level step of a link uses the documented default positive_next_speed=True
            opts = {"positive_next_speed": True} if isinstance(el, self.M.Link) else {}
            self.stepinfo[id(el)] = {"deps": {id(d): self.gen[id(d)] for d in deps}, "desc": desc, "objmap": objmap,
                                     "opts": opts}
        return None

    def op_netstep(self, pars=None):
        pars = pars or PARS
        self.net.step(engine=self.eng, **pars)
        desc, objmap = X.extract(self.M, self.net)
        for el in self.elements():
            if self.declared(el):
                self.gen[id(el)] = next(self.counter)
        for el in self.elements():
            if el._states and isinstance(el, (self.M.Link, self.M.Origin)):  # Network.step advances origins and links
                self.stepinfo[id(el)] = {"deps": {id(d): self.gen[id(d)] for d in self.deps_of(el)}, "desc": desc,
                                         "objmap": objmap, "opts": {}, "pars": pars}

    def _lay(self, u, link, w):
        """One link laid through the singular call, the bulk call (a list, a one-shot generator) or a one-link path, in
        turn: growth after a step is growth whichever construction call made it (round 18: C19r)."""
        self._forms = getattr(self, "_forms", 0) + 1
        f = self._forms % 4
        if f == 1:
            self.net.add_links([(u, link, w)])
        elif f == 2:
            self.net.add_link(u, link, w)
        elif f == 3:
            self.net.add_links((t for t in [(u, link, w)]))
        else:
            self.net.add_path((u, link, w))
        self.st.rec.count("links_laid_by_form_%d" % f) if hasattr(self.st, "rec") else None
        return self.net

    def op_add_branch(self):
        self._lay(self.N[1], self.L3, self.N[3]).add_destination(self.D2, self.N[3])

    def op_add_ramp(self):
        self.net.add_origin(self.O2, self.N[2])

    def op_replace_origin(self):
        self.net.add_origin(self.O1b, self.N[0])

    def op_replace_dest(self):
        self.net.add_destination(self.D1b, self.N[5])

    def op_replace_origin_user(self):
        self.net.add_origin(self.O1g, self.N[0])

    def op_replace_origin_instance_declared(self):
        self.net.add_origin(self.O1d, self.N[0])

    def op_replace_dest_user(self):
        self.net.add_destination(self.D1u, self.N[5])

    def op_replace_branch_dest(self):
        # only meaningful once the branch exists; otherwise it creates the branch with D2b directly
        self._lay(self.N[1], self.L3, self.N[3]).add_destination(self.D2b, self.N[3])

    def op_replace_link(self):
        self._lay(self.N[0], self.L1b, self.N[1])

    # ----- expectation
    def expected(self):
        els = self.elements()
        inn = {id(e) for e in els}
        for e in els:
            if self.declared(e) and id(e) not in self.gen:
                return "error", "uninitialised element"
        for e in els:
            if e._states and id(e) not in self.stepinfo:
                return "error", "unstepped element"
        for e in els:
            if e._states:
                for dep, gen_ in self.stepinfo[id(e)]["deps"].items():
                    if dep not in inn:
                        return "error", "stale step: a read element was replaced"
                    if self.gen.get(dep) != gen_:
                        return "error", "stale step: a read element was re-initialised with fresh symbols"
        return "function", ""


def observe_compile(W_, rec, ctxhist):
    exp, why = W_.expected()
    compact = W_.compact
    rec.count("compilations_observed")
    rec.seen("expectations", (exp, why))
    try:
        F = W_.compile_eng.to_function(W_.net, compact=compact, **KW)
        got, err = "function", None
    except RuntimeError as e:
        got, err = "error", e
    except Exception as e:
        got, err = "other-exception", e
    ctx = {"history": list(ctxhist), "sym_type": W_.st, "compact": compact, "expected": exp, "why": why,
           "function_requested_from": W_.compile_eng_kind}
    rec.seen("compile_engine_kinds", (W_.compile_eng_kind, exp))
    if exp == "error":
        if got == "function":
            rec.violation(f"{PROP}:compile returned a function although: {why}", ctx)
        elif got == "other-exception":
            rec.violation(f"{PROP}:compile raised {type(err).__name__} instead of RuntimeError ({why})", dict(ctx, exception=repr(err)[:300]))
        else:
            rec.count("runtime_errors_as_expected")
        return
    if got != "function":
        rec.violation(f"{PROP}:compile raised {type(err).__name__} on a fully initialised and stepped network", dict(ctx, exception=repr(err)[:300]))
        return
    rec.count("functions_as_expected")
    if W_.numeric:
        rec.count("functions_of_worlds_with_numeric_states")
    if F.get_free():
        rec.violation(f"{PROP}:compiled function has free symbols", dict(ctx, free=str(F.get_free())))
        return
    if W_.numeric:
        return
    # at every level the function takes exactly the network's current variables and returns its successors
    n_in_exp = sum((x.numel() if hasattr(x, "numel") else np.size(x))
                   for el in W_.elements() for grp in (el.states, el.actions, el.disturbances) if grp for x in grp.values())
    n_out_exp = sum((x.numel() if hasattr(x, "numel") else np.size(x))
                    for el in W_.elements() if el._states and el.next_states for x in el.next_states.values())
    n_in = sum(F.numel_in(i) for i in range(F.n_in()))
    n_out = sum(F.numel_out(i) for i in range(F.n_out()))
    rec.count("function_sizes_checked")
    if (n_in, n_out) != (n_in_exp, n_out_exp):
        rec.violation(f"{PROP}:the returned function does not take the network's current variables / return its successors (sizes)",
                      dict(ctx, inputs=n_in, expected_inputs=n_in_exp, outputs=n_out, expected_outputs=n_out_exp))
        return
    if compact != 0:
        return
    if any(getattr(el, "_vf_user", False) for el in W_.elements()):
        rec.count("value_checks_skipped_user_defined_kind")  # the by-name tables below know the library's kinds only
        return
    # values: every element's result equals the reference on the topology of its last step
    M = W_.M
    desc_now, objmap_now = X.extract(M, W_.net)
    g = G.NetGen(W_.rng)
    _, vals_now = g.values(desc_now, "interior", allow_inf=False)
    lay = var_layout(desc_now)
    names = {e["id"]: e["name"] for grp in ("links", "origins", "dests") for e in desc_now[grp]}
    args = {}
    for eid, L in lay.items():
        for grp in ("states", "actions", "disturbances"):
            for v, n in L[grp]:
                x = vals_now[eid][v]
                args[f"{v}_{names[eid]}"] = cs.DM(x if isinstance(x, list) else [x])
    all_names = [f"{v}_{names[eid]}" for eid, L in lay.items() for grp in ("states", "actions", "disturbances") for v, n in L[grp]]
    if len(set(all_names)) != len(all_names):
        rec.count("value_checks_skipped_clashing_argument_names")  # by-name evaluation would be ambiguous
        return
    if set(F.name_in()) != set(args):
        rec.violation(f"{PROP}:function arguments are not the network's current variables", dict(ctx, names=list(F.name_in()), expected=sorted(args)))
        return
    out = F.call(args)
    # every element's result equals the element's own CURRENT next state (the most recent step),
    # evaluated by the harness (independent of whether the dynamics themselves are right: C01)
    from vf import compilecases as CC

    table = {}
    for eid, L in lay.items():
        for grp in ("states", "actions", "disturbances"):
            for v, n in L[grp]:
                table[f"{v}_{names[eid]}"] = vals_now[eid][v]
    try:
        own = CC.OwnSuccessors(M, W_.net, W_.st, table)
    except Exception as e:
        rec.count("own_evaluation_failed")
        return
    if own.unknown_symbols:
        rec.violation(f"{PROP}:a function was returned although a current next state still refers to symbols that are not "
                      f"current variables of the network", dict(ctx, symbols=own.unknown_symbols[:5]))
        return
    for el in W_.elements():
        if not el._states:
            continue
        for v, exp in own.by_object.get(id(el), {}).items():
            got_ = np.asarray(out[f"{v}_{el.name}+"], dtype=float).ravel().tolist()
            for i, (x, y) in enumerate(zip(got_, exp)):
                rec.count("values_compared")
                if not (x == y or abs(x - y) <= 1e-9 * (1 + abs(x) + abs(y)) or (math.isnan(x) and math.isnan(y))):
                    rec.violation(f"{PROP}:the function does not reflect the most recent step of an element ({type(el).__name__}.{v}+)",
                                  dict(ctx, element=el.name, var=v, index=i, observed=x, expected=y))
                    return


OPS = ("init", "init", "init_numeric", "read_views", "read_views", "drop_next", "reset", "reinit_same", "stepel", "stepel", "netstep", "netstep", "netstep_alt", "compile", "compile", "compile",
       "add_branch", "add_ramp", "replace_origin", "replace_link", "replace_dest", "replace_branch_dest", "replace_dest_user", "replace_origin_user", "replace_origin_instance_declared")


def apply(W_, rec, op, arg=None):
    els = W_.elements()
    lab = op
    if op in ("init", "init_numeric", "reinit_same", "stepel", "drop_next", "reset"):
        el = els[arg % len(els)] if arg is not None else W_.rng.choice(els)
        lab = f"{op}({el.name})"
        W_.hist.append(lab)
        if op == "init":
            W_.op_init(el)
        elif op == "init_numeric":
            W_.op_init_numeric(el)
        elif op == "drop_next":
            W_.op_drop_next(el)
        elif op == "reset":
            W_.op_reset(el)
        elif op == "reinit_same":
            W_.op_reinit_same(el)
        else:
            bad = W_.op_stepel(el)
            if bad:
                rec.count("element_step_outcome_unexpected")
                rec.seen("element_step_outcome_unexpected", bad)
                if rec.counters.get("element_step_outcome_unexpected", 0) <= 3:
                    rec.sample({"element_step_outcome_unexpected": bad, "history": list(W_.hist), "sym_type": W_.st})
    elif op in ("netstep", "netstep_alt"):
        W_.hist.append(lab)
        try:
            W_.op_netstep(PARS_ALT if op == "netstep_alt" else None)
        except Exception as e:
            rec.count("netstep_raised")
            rec.seen("netstep_raised", repr(e)[:100])
            return False
    elif op == "read_views":
        # the public network-level views (printed / logged by the caller between the steps of its own loop)
        W_.hist.append(lab)
        for nm in ("states", "actions", "disturbances", "next_states"):
            try:
                _ = dict(getattr(W_.net, nm))
            except Exception:
                rec.count("network_view_read_raised")
        rec.count("network_views_read")
    elif op == "compile":
        W_.hist.append(lab)
        observe_compile(W_, rec, W_.hist)
    else:
        W_.hist.append(lab)
        getattr(W_, "op_" + op)()
    return True


def run(M, rec, tier, seed, k, n):
    np.seterr(all="ignore")
    rng = random.Random(seed * 1000 + k + 1900)
    try:
        rec.extra["oracle_selfcheck_max_rel_dev"] = selfcheck.run_selfcheck()
    except Inconclusive as e:
        rec.inconclusive_because(str(e))
        return
    # scripted histories: one per expected outcome (so every run exercises every reason)
    scripted = [
        [("compile", None)],
        [("netstep", None), ("compile", None)],
        [("netstep", None), ("add_ramp", None), ("compile", None)],
        [("init", 0), ("init", 1), ("init", 2), ("init", 3), ("init", 4), ("compile", None)],
        [("netstep", None), ("init", 1), ("compile", None)],
        [("netstep", None), ("replace_origin", None), ("init", 3), ("stepel", 3), ("compile", None)],
        [("netstep", None), ("replace_link", None), ("netstep", None), ("add_branch", None), ("netstep", None), ("compile", None)],
        [("netstep", None), ("reinit_same", 0), ("compile", None)],
        # several compilations in one history (same configuration): a memoised function must not survive
        [("netstep", None), ("compile", None), ("init", 0), ("compile", None)],
        [("netstep", None), ("compile", None), ("netstep_alt", None), ("compile", None)],
        [("netstep", None), ("compile", None), ("netstep", None), ("compile", None), ("init", 3), ("compile", None)],
        [("netstep_alt", None), ("compile", None), ("replace_origin", None), ("netstep", None), ("compile", None)],
        # an element added after the last step and initialised on its own, but never stepped (its name may clash)
        [("netstep", None), ("add_ramp", None), ("init", 4), ("compile", None)],
        # a state-less element that declares a disturbance, attached after the last step
        [("add_branch", None), ("netstep", None), ("replace_branch_dest", None), ("compile", None)],
        [("netstep", None), ("replace_dest", None), ("compile", None)],
        [("replace_dest_user", None), ("netstep", None), ("compile", None)],
        [("netstep", None), ("replace_origin_user", None), ("compile", None)],
        [("replace_origin_user", None), ("netstep", None), ("compile", None)],
        [("replace_dest_user", None), ("netstep", None), ("stepel", 4), ("compile", None)],
        [("add_branch", None), ("netstep", None), ("replace_branch_dest", None), ("init", 7), ("stepel", 2), ("compile", None)],
        # the network-level views read while the caller's own loop is under way
        [("init", 0), ("init", 1), ("init", 2), ("init", 3), ("init", 4), ("read_views", None), ("stepel", 0), ("stepel", 1), ("stepel", 2), ("stepel", 3),
         ("stepel", 4), ("compile", None)],
        [("init", 0), ("init", 1), ("init", 2), ("init", 3), ("init", 4), ("stepel", 3), ("read_views", None), ("stepel", 0), ("stepel", 1), ("stepel", 2),
         ("stepel", 4), ("compile", None)],
        [("netstep", None), ("read_views", None), ("add_ramp", None), ("init", 4), ("stepel", 4), ("read_views", None), ("compile", None)],
        # an element whose variable groups are declared on the instance, swapped in after the last step
        [("netstep", None), ("replace_origin_instance_declared", None), ("compile", None)],
        [("netstep", None), ("replace_origin_instance_declared", None), ("compile", None), ("netstep", None), ("compile", None)],
        [("replace_origin_instance_declared", None), ("netstep", None), ("compile", None), ("reset", 3), ("compile", None)],
        # results / variables taken away by hand after a successful compilation with the same engine object
        [("netstep", None), ("compile", None), ("drop_next", 0), ("compile", None)],
        [("netstep", None), ("compile", None), ("drop_next", 3), ("compile", None), ("netstep", None), ("compile", None)],
        [("netstep", None), ("compile", None), ("reset", 1), ("compile", None), ("init", 1), ("compile", None)],
        [("netstep", None), ("compile", None), ("reset", 0), ("reset", 1), ("reset", 2), ("reset", 3), ("reset", 4), ("compile", None)],
        # elements whose states are held at numbers: as unready as any other until stepped
        [("init_numeric", 0), ("init", 1), ("init", 2), ("init", 3), ("init", 4), ("stepel", 1), ("stepel", 2), ("stepel", 3), ("compile", None)],
        [("netstep", None), ("add_ramp", None), ("init_numeric", 4), ("compile", None)],
        [("init_numeric", 0), ("init", 1), ("init_numeric", 2), ("init", 3), ("init", 4), ("stepel", 0), ("stepel", 1), ("stepel", 2), ("stepel", 3),
         ("stepel", 4), ("compile", None)],
        [("netstep", None), ("replace_link", None), ("init_numeric", 0), ("compile", None)],
    ]
    for j, seq in enumerate(scripted):
        for st in ("SX", "MX"):
            for compact in (0, 2):
                # both kinds of first origin (with and without variables of its own) in every run
                W_ = World(M, st, rng, ideal_first_origin=((j + compact // 2) % 2 == 0), clash_names=(st == "SX") == (j % 2 == 0))
                W_.compact = compact
                for op, arg in seq:
                    if not apply(W_, rec, op, arg):
                        break
                rec.count("scripted_histories")
    # exhaustive short histories over a reduced alphabet, ending with compile
    small = [("netstep", None), ("init", 0), ("init", 1), ("init", 4), ("init_numeric", 1), ("read_views", None), ("stepel", 0), ("stepel", 1), ("stepel", 3),
             ("add_ramp", None), ("replace_origin", None), ("add_branch", None), ("replace_link", None), ("reinit_same", 0),
             ("replace_branch_dest", None), ("replace_dest", None)]
    depth = 3 if tier == "quick" else 4
    rec.extra["exhaustive_depth"] = depth
    i = 0
    for d in range(0, depth + 1):
        for seq in itertools.product(small, repeat=d):
            i += 1
            if i % n != k:
                continue
            st = ("SX", "MX")[i % 2]
            if tier == "quick" and d == depth and i % 3:
                continue
            W_ = World(M, st, rng)
            ok = True
            for op, arg in seq:
                ok = apply(W_, rec, op, arg)
                if not ok:
                    break
            if ok:
                apply(W_, rec, "compile")
                rec.count("exhaustive_histories")
    # random longer histories with several compiles
    for r in range(250 if tier == "quick" else 8000):
        W_ = World(M, ("SX", "MX")[r % 2], rng)
        for _ in range(rng.randint(3, 10)):
            if not apply(W_, rec, rng.choice(OPS)):
                break
        apply(W_, rec, "compile")
        rec.count("random_histories")
        if r == 3:
            rec.sample({"history": W_.hist})


def finish(M, rec, write=True):
    if not rec.violations:
        ex = rec.cover.get("expectations", set())
        for why in ("uninitialised element", "unstepped element", "stale step: a read element was replaced",
                    "stale step: a read element was re-initialised with fresh symbols"):
            rec.gate(any(why in s for s in ex), f"expectation never exercised: {why}")
        rec.gate(rec.counters.get("functions_as_expected", 0) > 0, "no successful compilation observed")
        rec.gate(rec.counters.get("values_compared", 0) > 0, "no value of a compiled function compared")
        rec.gate(rec.counters.get("netstep_raised", 0) == 0, f"net.step raised in a history: {sorted(rec.cover.get('netstep_raised', []))[:2]}")
        rec.gate(rec.counters.get("element_step_outcome_unexpected", 0) == 0,
                 f"element step outcome differs from the model: {sorted(rec.cover.get('element_step_outcome_unexpected', []))}")
    rec.extra["exhaustive_subspaces"] = [f"all histories of length <= {rec.extra.get('exhaustive_depth')} over the 14-operation alphabet, each followed by compile (quick: a third of the longest)"]
    return rec.finish(
        ["compilations_observed", "values_compared"],
        ["expectations"],
        rule="histories over {init(el), re-init with the same symbols, el.step, net.step, add ramp, add branch+destination, replace origin, "
        "replace link, compile} on a 2-link network (extended by the histories themselves), exhaustive to depth coverage.exhaustive_depth "
        "(each followed by compile) + random histories of 3..10 operations; SX and MX; outcome of every compile compared with the "
        "readiness model, successful functions evaluated by name and compared per element with the scalar reference on the topology of "
        "that element's last step; distinct = (expected outcome, reason) pairs",
        assumptions=["re-initialising with the same symbol objects keeps the step current (either outcome would be accepted by the statement)",
                     "scalar reference model (self-checked each run)"],
        write=write,
    )
