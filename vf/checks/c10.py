"""C10 — each next state depends only on its own segment and its model neighbours.

(a) symbolic taint: the SX/MX expression of each next state is the recorded trace of the
    real Python code executed on symbols; ``F.jac_sparsity`` of the compiled function
    (compact=0) gives, per output scalar, the set of input scalars it depends on — valid for
    all numeric inputs of that trace;
(b) perturbation tracing on the NumPy engine and on the compiled function: change one input
    scalar, record which output scalars change bitwise.
Oracle: allowed-influence sets computed from the description exactly as the statement
lists them.  Violation iff an output is influenced from outside its set.
"""
import math
import random

import casadi as cs
import numpy as np

from vf import compiled as C, compilecases as CC, desc as D, drive, gen as G, refmodel as R, workloads as W

PROP = "C10"
WATCHDOG_S = 3000


def allowed_sets(desc, pars, lenient=None):
    """lenient (optional dict, filled): per output, inputs that are allowed only because an implementation
    may *form* an expression containing them (the density of a single entering link in v q / q): a
    structural dependence is accepted, a numerically significant one is not."""
    ins, outs, org, dst = R.topology(desc)
    A = {}

    def seg(l, i):
        return {(l["id"], "rho", i), (l["id"], "v", i)}

    ctrl = {"main": "v_ctrl", "ramp": "r", "simple": "q"}

    def origin_vars(o):
        lk = outs[o["node"]][0]
        s = set(seg(lk, 0))
        if o["kind"] != "ideal":
            s |= {(o["id"], "w", 0), (o["id"], "d", 0), (o["id"], ctrl[o["kind"]], 0)}
        return s

    for l in desc["links"]:
        N = l["N"]
        up, dn = l["up"], l["down"]
        for i in range(N):
            own = seg(l, i)
            # ---- density
            s = set(own)
            if i > 0:
                s |= seg(l, i - 1)
            else:
                for mu in ins[up]:
                    s |= seg(mu, mu["N"] - 1)
                if up in org:
                    s |= origin_vars(org[up])
            A[(l["id"], "rho", i)] = s
            # ---- speed
            s = set(own)
            if i > 0:
                s.add((l["id"], "v", i - 1))
            else:
                if len(ins[up]) >= 1:
                    # one entering link: the flow-weighted speed reduces to its speed, but an
                    # implementation may still form the weighted expression (structural dependence
                    # on its density) — allowed either way
                    for mu in ins[up]:
                        s |= seg(mu, mu["N"] - 1)
                    if lenient is not None and len(ins[up]) == 1:
                        mu = ins[up][0]
                        k_ = (mu["id"], "rho", mu["N"] - 1)
                        if k_ not in own and not (i < N - 1 and k_ == (l["id"], "rho", i + 1)) \
                                and not (N == 1 and any(x["id"] == mu["id"] for x in outs[dn])):
                            lenient.setdefault((l["id"], "v", i), set()).add(k_)
                o = org.get(up)
                if (pars.get("delta") is not None and o is not None and o["kind"] in ("ramp", "simple") and ins[up]):
                    s |= origin_vars(o)
            if i < N - 1:
                s.add((l["id"], "rho", i + 1))
            else:
                if dn in dst:
                    if dst[dn]["kind"] == "cong":
                        s.add((dst[dn]["id"], "d", 0))
                else:
                    for x in outs[dn]:
                        s.add((x["id"], "rho", 0))
            if l.get("vsl") is not None and i in l["vsl"]:
                s.add((l["id"], "v_ctrl", sorted(l["vsl"]).index(i)))
            A[(l["id"], "v", i)] = s
    for o in desc["origins"]:
        if o["kind"] != "ideal":
            A[(o["id"], "w", 0)] = origin_vars(o)
    return A


def scalar_keys(desc, order, group):
    lay = D.var_layout(desc)
    out = []
    for eid in order:
        for v, n in lay[eid][group]:
            out.append([(eid, v, i) for i in range(n)])
    return out


def classify(desc, okey, ikey):
    """Structural class of an illegal influence (mechanism key)."""
    links = {l["id"]: l for l in desc["links"]}
    ins, outs, org, dst = R.topology(desc)

    def pos(l, i):
        if l["N"] == 1:
            return "only"
        return "first" if i == 0 else ("last" if i == l["N"] - 1 else "mid")

    o_el, o_var, o_i = okey
    i_el, i_var, i_i = ikey
    if o_el in links:
        ol = links[o_el]
        a = f"link.{o_var}+[{pos(ol, o_i)}]"
        if i_el == o_el:
            return f"{a} <- own link {i_var}[offset {i_i - o_i:+d}]" + ("" if i_var != "v_ctrl" else " (limit of another segment)")
        if i_el in links:
            il = links[i_el]
            rel = []
            if il["down"] == ol["up"]:
                rel.append("entering-link-of-upstream-node")
            if il["up"] == ol["down"]:
                rel.append("leaving-link-of-downstream-node")
            if il["up"] == ol["up"]:
                rel.append("sibling-leaving-same-node")
            if il["down"] == ol["down"]:
                rel.append("sibling-entering-same-node")
            return f"{a} <- {'/'.join(rel) or 'unrelated link'} {i_var}[{pos(il, i_i)}]"
        for o in desc["origins"]:
            if o["id"] == i_el:
                where = "at-upstream-node" if o["node"] == ol["up"] else ("at-downstream-node" if o["node"] == ol["down"] else "elsewhere")
                return f"{a} <- origin({o['kind']}) {where} {i_var}"
        return f"{a} <- destination {i_var}"
    return f"origin.{o_var}+ <- {'link' if i_el in links else 'other element'} {i_var}[{i_i}]"


def taint(M, rec, rng, desc, pars, st):
    try:
        # positivity options do not change who influences whom (a clamp at zero of the same quantity)
        opts = CC.random_opts(rng, 0.35) if rng.random() < 0.5 else {}
        if opts:
            rec.count("taint_functions_with_positivity_options")
        case = CC.CompileCase(M, rng, desc, pars, st, (), opts, own_symbols=(rng.random() < 0.5))
        if case.shared_inner_mapping is not None:
            # several links were handed one and the same (empty) inner mapping: each must own its variables,
            # otherwise one link's next state is a function of another link's state
            rec.count("cases_with_one_inner_mapping_shared_by_several_links")
            ls = list(case.built.links.items())
            for i_ in range(len(ls)):
                for j_ in range(i_ + 1, len(ls)):
                    for nm_ in ("rho", "v"):
                        a_, b_ = ls[i_][1].states[nm_], ls[j_][1].states[nm_]
                        if a_ is b_ or (a_.shape == b_.shape and cs.is_equal(a_, b_)):
                            rec.violation(f"{PROP}:taint({st}): two links share their state variables after a step (one inner init_conditions mapping handed to both)",
                                          {"desc": desc, "links": [ls[i_][0], ls[j_][0]], "variable": nm_,
                                           "written_into_the_shared_mapping": case.shared_inner_mapping_written})
                            return None
        F = case.compile(0, False)
    except Exception as e:
        rec.count("compile_failed")
        rec.seen("failed", repr(e)[:100])
        return None
    A = allowed_sets(desc, pars)
    ikeys = scalar_keys(desc, case.order, "states") + scalar_keys(desc, case.order, "actions") + scalar_keys(desc, case.order, "disturbances")
    okeys = scalar_keys(desc, case.order, "states")
    if F.n_in() != len(ikeys) or F.n_out() != len(okeys):
        rec.count("layout_mismatch_skipped")
        return case
    rec.count("taint_functions")
    for oi, oblock in enumerate(okeys):
        for ii, iblock in enumerate(ikeys):
            if not iblock or not oblock:
                continue
            sp = F.jac_sparsity(oi, ii)
            rows, cols = sp.get_triplet()
            rec.count("taint_blocks")
            for r_, c_ in zip(rows, cols):
                rec.count("taint_dependencies_checked")
                ok, ik = oblock[r_], iblock[c_]
                if ik not in A[ok]:
                    rec.violation(f"{PROP}:taint({st}): {classify(desc, ok, ik)}",
                                  {"desc": desc, "pars": pars, "sym_type": st, "output": list(ok), "input": list(ik),
                                   "allowed": sorted(map(list, A[ok]))})
    # how many allowed dependencies are actually present (information only)
    return case


def perturb_numpy(M, rec, rng, g, desc, pars, points):
    NE, CE = drive.engines(M)
    LEN = {}
    A = allowed_sets(desc, pars, LEN)
    built = D.build(M, desc, D.random_ops(desc, rng))
    lay = D.var_layout(desc)
    kw = drive.step_pars(pars)
    for _ in range(points):
        _, vals = g.values(desc, rng.choice(("interior", "mixed")), allow_inf=False)
        if R.is_singular(desc, vals):
            continue
        try:
            built.net.step(init_conditions=drive.np_init(built, vals, "vec1"), engine=NE(), **kw)
            base = drive.read_next(built)
        except Exception:
            rec.count("numpy_step_failed")
            return
        inputs = [(eid, v, i) for eid, L in lay.items() for grp in ("states", "actions", "disturbances") for v, n in L[grp] for i in range(n)]
        for ik in inputs:
            eid, v, i = ik
            v2 = {k: {kk: (list(x) if isinstance(x, list) else x) for kk, x in d.items()} for k, d in vals.items()}
            cur = v2[eid][v][i] if isinstance(v2[eid][v], list) else v2[eid][v]
            new = cur * (1 + 1e-3) + (1e-2 if cur == 0 else 0.0)
            if v == "r":
                new = cur * 0.99 if cur > 0.5 else cur + 0.01
            if isinstance(v2[eid][v], list):
                v2[eid][v][i] = new
            else:
                v2[eid][v] = new
            built.net.step(init_conditions=drive.np_init(built, v2, "vec1"), engine=NE(), **kw)
            nxt = drive.read_next(built)
            rec.count("perturbations_numpy")
            for oe, d in base.items():
                for ov, xs in d.items():
                    xs_ = xs if isinstance(xs, list) else [xs]
                    ys_ = nxt[oe][ov] if isinstance(nxt[oe][ov], list) else [nxt[oe][ov]]
                    for oi, (x, y) in enumerate(zip(xs_, ys_)):
                        if x != y and not (math.isnan(x) and math.isnan(y)):
                            ok = (oe, ov, oi)
                            rec.count("observed_influences_numpy")
                            if ik not in A[ok]:
                                rec.violation(f"{PROP}:perturbation(numpy): {classify(desc, ok, ik)}",
                                              {"desc": desc, "pars": pars, "vals": vals, "output": list(ok), "input": list(ik),
                                               "base": x, "perturbed": y})
                            elif ik in LEN.get(ok, ()) and abs(x - y) > 1e-10 * (1 + abs(x)):
                                # the first segment's speed after a node with ONE entering link takes that link's
                                # speed; its density may only enter through rounding of an expression that cancels
                                rec.violation(f"{PROP}:perturbation(numpy): first-segment speed changes significantly with the density of the single entering link",
                                              {"desc": desc, "pars": pars, "vals": vals, "output": list(ok), "input": list(ik),
                                               "base": x, "perturbed": y})
                            else:
                                rec.seen("influence_classes", classify(desc, ok, ik))


def closed_link_has_no_influence(M, rec, rng, g, desc, pars):
    """A road closed on the live network (edge removed from the graph the network hands out) is no longer
    a link of the network: whatever is left in its variables must not influence any next state."""
    NE, CE = drive.engines(M)
    built = D.build(M, desc, D.random_ops(desc, rng))
    kw = drive.step_pars(pars)
    _, v0 = g.values(desc, "interior", allow_inf=False)
    try:
        built.net.step(init_conditions=drive.np_init(built, v0, "vec1"), engine=NE(), **kw)
    except Exception:
        return
    closed_ids = set(built.links)
    d2, what = W.close_link_inplace(M, built, desc, rng)
    if not what:
        return
    closed_id = (closed_ids - set(built.links)).pop()
    _, vals = g.values(d2, "interior", allow_inf=False)
    if R.is_singular(d2, vals):
        return
    try:
        built.net.step(init_conditions=drive.np_init(built, vals, "vec1"), engine=NE(), **kw)
        base = drive.read_next(built)
    except Exception as e:
        rec.violation(f"{PROP}:closed link: the network cannot be stepped after a link was closed ({type(e).__name__})",
                      {"desc": desc, "closed": closed_id, "exception": repr(e)[:300]})
        return
    # overwrite what the closed link still holds, in place, and step again from the same values
    lk = getattr(built, "closed_link", None)
    if lk is None or lk.states is None:
        return
    for nm, arr in lk.states.items():
        if isinstance(arr, np.ndarray) and arr.flags.writeable:
            arr[...] = arr * 1.37 + 3.0
    built.net.step(init_conditions=drive.np_init(built, vals, "vec1"), engine=NE(), **kw)
    again = drive.read_next(built)
    rec.count("closed_link_influence_checks")
    for eid, d in base.items():
        for nm, xs in d.items():
            xs_ = xs if isinstance(xs, list) else [xs]
            ys_ = again[eid][nm] if isinstance(again[eid][nm], list) else [again[eid][nm]]
            for i, (x, y) in enumerate(zip(xs_, ys_)):
                if x != y and not (math.isnan(x) and math.isnan(y)):
                    rec.violation(f"{PROP}:closed link: a link that is no longer part of the network influences a next state",
                                  {"desc": desc, "closed": closed_id, "output": [eid, nm, i], "base": x, "after_overwriting_its_leftover_state": y})
                    return


def perturb_compiled(M, rec, rng, g, desc, pars, case):
    A = allowed_sets(desc, pars)
    try:
        F = case.compile(2, False)
    except Exception:
        return
    _, vals = g.values(desc, "interior", allow_inf=False)
    if R.is_singular(desc, vals):
        return
    args, names, groups, byname = C.build_args(desc, case.order, vals, 2)
    base = np.asarray(F(*args), dtype=float).ravel()
    # scalar keys of x, u, d and x+ at level 2
    def keys(grp):
        ks = []
        seen = []
        for eid, v, xs in groups[grp]:
            if v not in seen:
                seen.append(v)
        for v in seen:
            for eid, vv, xs in groups[grp]:
                if vv == v:
                    ks += [(eid, v, i) for i in range(len(xs))]
        return ks

    K = [keys("states"), keys("actions"), keys("disturbances")]
    okeys = K[0]
    for gi in range(3):
        vec = np.asarray(args[gi], dtype=float).ravel()
        for j, ik in enumerate(K[gi]):
            v2 = vec.copy()
            v2[j] = v2[j] * (1 + 1e-3) + (1e-2 if v2[j] == 0 else 0.0)
            a2 = list(args)
            a2[gi] = cs.DM(v2.tolist())
            out = np.asarray(F(*a2), dtype=float).ravel()
            rec.count("perturbations_compiled")
            for oi in np.nonzero(out != base)[0]:
                ok = okeys[int(oi)]
                if math.isnan(out[oi]) and math.isnan(base[oi]):
                    continue
                if ik not in A[ok]:
                    rec.violation(f"{PROP}:perturbation(compiled {case.symtype}): {classify(desc, ok, ik)}",
                                  {"desc": desc, "pars": pars, "vals": vals, "output": list(ok), "input": list(ik)})


def kind_with_a_nominal_state(M, rec, rng, reps):
    """A user link kind that completes the mapping `init_vars` hands it with its own nominal state, in a corridor stepped
    through `Network.step` with partial initial conditions (origin only): every link starts from ITS nominal state, and the
    last link's next state does not move when the first link's nominal state does (they are not neighbours)."""
    from vf import userkinds as UK

    NE, CE = drive.engines(M)
    for it in range(reps):
        k_ = rng.choice((3, 4))
        nodes = [M.Node(name=f"N{i}") for i in range(k_ + 1)]
        links = []
        for i in range(k_):
            N_ = rng.choice((1, 2, 3))
            links.append(UK.NominalLink(N_, 2, 1.0, 180.0, 33.5, 102.0, 1.867, name=f"L{i}",
                                        nominal_rho=np.array([rng.uniform(10.0, 60.0) for _ in range(N_)]), nominal_v=np.array([rng.uniform(40.0, 100.0) for _ in range(N_)])))
        path = [nodes[0]]
        for i in range(k_):
            path += [links[i], nodes[i + 1]]
        org = M.MainstreamOrigin(name="O")
        net = M.Network().add_path(tuple(path), origin=org, destination=M.Destination(name="D"))
        kw = dict(T=10 / 3600, tau=18 / 3600, eta=60.0, kappa=40.0)
        ic = lambda: {org: {"w": np.array([5.0]), "d": np.array([2500.0]), "v_ctrl": np.array([300.0])}}  # noqa: E731
        try:
            eng = NE()
            net.step(init_conditions=(ic() if it % 2 else {org: {}}), engine=eng, **kw)
            shared = [(a_.name, b_.name) for i_, a_ in enumerate(links) for b_ in links[i_ + 1:] if any(a_.states[n_] is b_.states[n_] for n_ in ("rho", "v"))]
            if shared:
                rec.count("nominal_state_kind_steps")
                rec.violation(f"{PROP}:user kind completing its init mapping: after a Network.step with partial initial conditions two links hold the very same state variables",
                              {"links": shared[:3]})
                continue
            own = all(np.array_equal(np.asarray(l_.states["rho"], float).ravel(), l_.nominal_rho) for l_ in links)
            r1 = [np.asarray(links[-1].next_states[n_], float).copy() for n_ in ("rho", "v")]
            links[0].nominal_rho = links[0].nominal_rho + 25.0
            net.step(init_conditions=ic(), engine=eng, **kw)
            r2 = [np.asarray(links[-1].next_states[n_], float).copy() for n_ in ("rho", "v")]
        except Exception as e:
            rec.violation(f"{PROP}:user kind completing its init mapping: stepping raised {type(e).__name__}", {"exception": repr(e)[:300]})
            continue
        rec.count("nominal_state_kind_steps")
        if not own:
            rec.violation(f"{PROP}:user kind completing its init mapping: after a Network.step with partial initial conditions a link does not start from its own nominal state "
                          "(another element's variables reached it)", {"links": k_})
        elif not all(np.array_equal(a_, b_, equal_nan=True) for a_, b_ in zip(r1, r2)):
            rec.violation(f"{PROP}:user kind completing its init mapping: the last link's next state moves with the nominal state of the first link (not a neighbour)",
                          {"links": k_, "before": [x.tolist() for x in r1], "after": [x.tolist() for x in r2]})


def run(M, rec, tier, seed, k, n):
    np.seterr(all="ignore")
    rng = random.Random(seed * 1000 + k + 1000)
    g = G.NetGen(rng)
    sh = W.shapes_cycle()
    from vf import batched

    # node equations evaluated for K nodes / instants at once: a column never depends on another one
    batched.batched_primitives(M, rec, rng, PROP, 300 if tier == "quick" else 3000, which=batched.NODE_PRIMS)
    kind_with_a_nominal_state(M, rec, rng, 24 if tier == "quick" else 240)
    W.preallocated_buffers(M, rec, rng, PROP, 24 if tier == "quick" else 240, what="a network (each next state a function of the CURRENT neighbouring states)")
    # scripted in every run: a corridor whose INTERIOR nodes are falsy user-defined nodes (what a node's entering / leaving
    # links are does not depend on its truth value)
    for st in ("SX", "MX"):
        dsc = {"nodes": ["n0", "n1", "n2", "n3"],
               "links": [{"id": f"L{i}", "name": f"L{i}", "up": f"n{i}", "down": f"n{i + 1}", "N": 3, "lam": 2, "L": 1.0, "rho_max": 180.0, "rho_crit": 33.5, "v_free": 102.0,
                          "a": 1.867, "beta": 1.0, "vsl": None, "alpha": None} for i in range(3)],
               "origins": [{"id": "O0", "name": "O0", "node": "n0", "kind": "main", "C": None, "eq": None}],
               "dests": [{"id": "D0", "name": "D0", "node": "n3", "kind": "free"}], "falsy_nodes": ["n1", "n2"]}
        rec.count("corridors_with_falsy_interior_nodes")
        taint(M, rec, rng, dsc, g.pars(), st)
    # scripted in every run: an on-ramp at a MERGE node, no merging term asked for (delta not given): the speed of the leaving
    # link's first segment is the flow-weighted mean of the ENTERING LINKS' speeds - the ramp's queue, demand and rate stay out
    for i_, (okind, eq) in enumerate((("ramp", "in"), ("ramp", "out"), ("simple", "limited"), ("simple", "unlimited"))):
        lk_ = lambda j, up, dn: {"id": f"L{j}", "name": f"L{j}", "up": up, "down": dn, "N": rng.choice((1, 2, 3)), "lam": rng.choice((1, 2, 3)), "L": 1.0, "rho_max": 180.0,  # noqa: E731
                                 "rho_crit": 33.5, "v_free": 102.0, "a": 1.867, "beta": 1.0, "vsl": None, "alpha": None}
        dsc = {"nodes": ["s0", "s1", "m", "t"], "links": [lk_(0, "s0", "m"), lk_(1, "s1", "m"), lk_(2, "m", "t")],
               "origins": [{"id": "O0", "name": "O0", "node": "s0", "kind": "main", "C": None, "eq": None}, {"id": "O1", "name": "O1", "node": "s1", "kind": "ideal", "C": None, "eq": None},
                           {"id": "R", "name": "R", "node": "m", "kind": okind, "C": 2000.0, "eq": eq}],
               "dests": [{"id": "D0", "name": "D0", "node": "t", "kind": "free"}]}
        rec.count("merge_nodes_with_an_on_ramp")
        taint(M, rec, rng, dsc, dict(g.pars(), delta=None), ("SX", "MX")[i_ % 2])
        perturb_numpy(M, rec, rng, g, dsc, dict(g.pars(), delta=None), 2)
    for it in range(90 if tier == "quick" else 700):
        shape = next(sh)
        desc = g.all_kinds_network() if it % 6 == 0 else g.network(shape)[1]
        if it % 9 == 4:
            desc = g.network(rng.choice(("chain", "ramp", "random")), force=("long", "vsl"))[1]
            rec.count("networks_with_long_speed_limited_links")
        pars = g.pars()
        if it % 9 in (1, 7):
            # every on-ramp variant merging at an interior node, with the merging term on
            desc = g.network(rng.choice(("ramp", "ramp", "random")))[1]
            var = G.RAMP_VARIANTS[(it // 9 + (it % 9 == 7) * 2) % 4]
            if G.set_interior_ramps(desc, var):
                rec.seen("interior_ramp_variants_with_merging_term", var)
            pars = g.pars(delta=True)
        rec.seen("net_signatures", D.signature(desc))
        case = None
        for st in ("SX", "MX"):
            c = taint(M, rec, rng, desc, pars, st)
            case = case or c
        perturb_numpy(M, rec, rng, g, desc, pars, 2 if tier == "quick" else 3)
        closed_link_has_no_influence(M, rec, rng, g, desc, pars)
        if case is not None and it % 3 == 0:
            perturb_compiled(M, rec, rng, g, desc, pars, case)
        if it == 1:
            A = allowed_sets(desc, pars)
            k0 = sorted(A)[0]
            rec.sample({"desc": desc, "example_output": list(k0), "allowed_inputs": sorted(map(list, A[k0]))})


def finish(M, rec, write=True):
    if not rec.violations:
        rec.gate(rec.counters.get("taint_dependencies_checked", 0) > 0, "no symbolic dependency observed")
        rec.gate(rec.counters.get("observed_influences_numpy", 0) > 0, "no numeric influence observed")
        rec.gate(rec.n_seen("interior_ramp_variants_with_merging_term") == 4, "not every on-ramp variant seen merging at an interior node")
        rec.gate(rec.counters.get("compile_failed", 0) <= 0.02 * max(1, rec.counters.get("taint_functions", 0)), "too many cases failed to compile")
        rec.gate(rec.counters.get("layout_mismatch_skipped", 0) == 0, "compiled function layout differs from the documented one (see C04)")
    return rec.finish(
        ["taint_dependencies_checked", "perturbations_numpy", "perturbations_compiled"],
        ["net_signatures", "influence_classes"],
        rule="random valid networks of all shape classes; (a) jac_sparsity of to_function(compact=0) for SX and MX: every structural "
        "dependency checked against the allowed-influence set of its output; (b) NumPy engine: every input scalar perturbed at 2-3 base "
        "points, outputs that change bitwise must allow that input; (c) compiled level-2 function perturbed likewise; distinct = network "
        "signatures + structural classes of influences actually observed",
        assumptions=["allowed sets are computed from the description exactly as the statement lists them (own segment; upstream segment or "
                     "entering links' last segments + node origin's variables and first segment of the origin's link; downstream first "
                     "segments or destination scenario; own speed limit; merging ramp only when delta is given)"],
        write=write,
    )
