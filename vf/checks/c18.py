"""C18 — neutral controls reproduce the uncontrolled model; limits never raise speeds.

Pairs of runs from identical states on paired networks (controlled vs plain element):
  R1 LinkWithVsl with infinite limits, or with no limited segment  == plain Link
  R2 finite limit: every next speed <= the unlimited one; segments without a limit
     (and every other element) unchanged
  R3 metered ramp 'in' vs 'out' at r = 1 coincide
  R4 limited simplified ramp with infinite desired flow == metered ramp at r = 1
  R5 mainstream origin with infinite speed limit == with a limit equal to / above v_1
plus an in-situ postcondition on controlled_Veq (both engines): unlisted entries equal
Veq, listed entries equal min(Veq, (1+alpha) v_ctrl).
"""
import copy
import math
import random

import casadi as cs
import numpy as np

from vf import desc as D, drive, gen as G, oracle as O, primmon, refmodel as R, workloads as W

PROP = "C18"
WATCHDOG_S = 3000


def step_numbers(M, desc, vals, pars, engine_kind, symvals):
    """Builds the network of `desc`, steps it from `vals`, returns next states as numbers."""
    NE, CE = drive.engines(M)
    built = D.build(M, desc)
    kw = drive.step_pars(pars)
    if engine_kind == "numpy":
        built.net.step(init_conditions=drive.np_init(built, vals, "vec1", int_dtype=INT["on"]), engine=NE(), **OPTS, **kw)
        return drive.read_next(built)
    symvals.clear()
    ic, syms = drive.sym_init(M, built, engine_kind, symvals, vals)
    built.net.step(init_conditions=ic, engine=CE(engine_kind), **OPTS, **kw)
    lay = D.var_layout(desc)
    exprs, index = [], []
    for eid, L in lay.items():
        for name, n in L["states"]:
            exprs.append(built.el(eid).next_states[name])
            index.append((eid, name))
    nums, _ = O.eval_exprs(exprs, engine_kind, symvals)
    out = {}
    for (eid, name), v in zip(index, nums):
        out.setdefault(eid, {})[name] = v if name in ("rho", "v") else v[0]
    return out


OPTS = {}  # positivity options of the current pair of runs (the same on both sides)
INT = {"on": False}  # whole-number states are handed to the NumPy engine as integer arrays


def same(a, b, exact):
    if exact:
        return a == b or (math.isnan(a) and math.isnan(b))
    if math.isnan(a) or math.isnan(b):
        return math.isnan(a) and math.isnan(b)
    return abs(a - b) <= 1e-12 * (1 + abs(a) + abs(b))


def cmp_all(rec, rel, ek, desc, A, B, vals, pars, skip=()):
    exact = ek == "numpy"
    for eid, d in A.items():
        for name, v in d.items():
            va = v if isinstance(v, list) else [v]
            vb = B[eid][name] if isinstance(B[eid][name], list) else [B[eid][name]]
            for i, (x, y) in enumerate(zip(va, vb)):
                if (eid, name, i) in skip:
                    continue
                rec.count("pair_scalars_compared")
                if not same(x, y, exact):
                    kind = "link" if any(l["id"] == eid for l in desc["links"]) else "origin"
                    rec.violation(f"{PROP}:{rel}:{ek}: {kind}.{name}+ differs between the controlled and the neutral/plain run",
                                  {"relation": rel, "engine": ek, "desc": desc, "vals": vals, "pars": pars,
                                   "element": eid, "var": name, "index": i, "controlled": x, "plain": y})
                    return False
    return True


def relations(M, rec, rng, n_nets, symvals):
    g = G.NetGen(rng)
    sh = W.shapes_cycle()
    for it in range(n_nets):
        shape = next(sh)
        if shape == "allkinds":
            desc = g.all_kinds_network()
        else:
            _, desc = g.network(shape, force=("vsl",) if it % 4 != 1 else ())
        pars = g.pars()
        ek = ("numpy", "numpy", "SX", "MX")[it % 4]
        for _draw in range(2 if ek == "numpy" else 1):
            _, vals = g.values(desc, allow_inf=False)
            INT["on"] = ek == "numpy" and rng.random() < 0.25
            if INT["on"]:
                vals = drive.integerise(vals)
                rec.count("paired_runs_with_integer_arrays")
            if R.is_singular(desc, vals):
                rec.count("skipped_singular")
                continue
            try:
                _relations_one(M, rec, rng, desc, vals, pars, ek, symvals)
            except Exception as e:
                rec.violation(f"{PROP}:{ek}: stepping a paired network raised {type(e).__name__}",
                              {"desc": desc, "exception": repr(e)[:300]})


def _relations_one(M, rec, rng, desc, vals, pars, ek, symvals):
    vsl_links = [l for l in desc["links"] if l.get("vsl") is not None]
    # ---------- R1 / R2
    if vsl_links:
        plain = copy.deepcopy(desc)
        for l in plain["links"]:
            l["vsl"], l["alpha"] = None, None
        vplain = {k: {n: v for n, v in d.items() if not (n == "v_ctrl" and k in {l["id"] for l in vsl_links})}
                  for k, d in vals.items()}
        base = step_numbers(M, plain, vplain, pars, ek, symvals)
        # R1a: infinite limits
        vinf = copy.deepcopy(vals)
        for l in vsl_links:
            vinf[l["id"]]["v_ctrl"] = [math.inf] * len(l["vsl"])
        a = step_numbers(M, desc, vinf, pars, ek, symvals)
        rec.count("relation_R1_inf")
        if rec.counters["relation_R1_inf"] == 1:
            rec.sample({"relation": "R1 infinite limit vs plain link", "engine": ek, "desc": desc, "vals": vinf, "pars": pars})
        rec.seen("relations", ("R1-infinite-limit", ek))
        cmp_all(rec, "R1 infinite limit vs plain link", ek, desc, a, base, vinf, pars)
        # R1c: the same with positivity options requested and some negative speeds/densities supplied: the
        #      options are part of how a link evolves, a speed-limited link must honour them like a plain one
        names = ("positive_init_speed", "positive_init_density", "positive_init_queue",
                 "positive_next_speed", "positive_next_density", "positive_next_queue")
        chosen = [o for o in names if rng.random() < 0.4]
        if not set(chosen) & set(names[:2]):
            chosen.append(rng.choice(names[:2]))
        vneg = copy.deepcopy(vinf)
        for l in desc["links"]:
            for nm, need in (("rho", "positive_init_density"), ("v", "positive_init_speed")):
                if need not in chosen:
                    continue  # an unclamped negative density is outside the model (non-integer power)
                for i_ in range(l["N"]):
                    if rng.random() < 0.4:
                        vneg[l["id"]][nm][i_] = -abs(vneg[l["id"]][nm][i_]) * rng.choice((1.0, 0.5, 0.1)) - rng.choice((0.0, 1.0))
        vnegp = {k: {n: v for n, v in d.items() if not (n == "v_ctrl" and k in {l["id"] for l in vsl_links})} for k, d in vneg.items()}
        OPTS.clear()
        OPTS.update({o: True for o in chosen})
        try:
            a2 = step_numbers(M, desc, vneg, pars, ek, symvals)
            base2 = step_numbers(M, plain, vnegp, pars, ek, symvals)
        finally:
            OPTS.clear()
        rec.count("relation_R1_inf_with_options")
        rec.seen("relations", ("R1-infinite-limit-with-positivity-options", ek))
        rec.seen("option_sets", tuple(sorted(chosen)))
        cmp_all(rec, "R1 infinite limit vs plain link, positivity options requested and negative entries supplied", ek, desc, a2, base2,
                dict(vneg, options=sorted(chosen)), pars)
        # R1b: no limited segment
        d0 = copy.deepcopy(desc)
        v0 = copy.deepcopy(vals)
        for l in d0["links"]:
            if l.get("vsl") is not None:
                l["vsl"] = []
                v0[l["id"]]["v_ctrl"] = []
        b = step_numbers(M, d0, v0, pars, ek, symvals)
        rec.count("relation_R1_empty")
        rec.seen("relations", ("R1-no-limited-segment", ek))
        cmp_all(rec, "R1 no limited segment vs plain link", ek, desc, b, base, v0, pars)
        # R2: finite limits
        c = step_numbers(M, desc, vals, pars, ek, symvals)
        rec.count("relation_R2")
        rec.seen("relations", ("R2-finite-limit", ek))
        skip = set()
        for l in vsl_links:
            for i in l["vsl"]:
                skip.add((l["id"], "v", i))
                x, y = c[l["id"]]["v"][i], base[l["id"]]["v"][i]
                rec.count("limited_segments_compared")
                if x < y:
                    rec.seen("limit_effect", "binding")
                else:
                    rec.seen("limit_effect", "slack")
                if not (x <= y + 1e-12 * (1 + abs(y))):
                    rec.violation(f"{PROP}:R2:{ek}: a finite speed limit increased a next speed",
                                  {"desc": desc, "vals": vals, "pars": pars, "link": l["id"], "segment": i,
                                   "limited": x, "unlimited": y})
        cmp_all(rec, "R2 segments without a limit", ek, desc, c, base, vals, pars, skip=skip)
        # R2b: the same limit shown on every sign, written once (a float / 0-d / length-1 value that the
        #      engine broadcasts over the signs) instead of once per sign: same step, and in particular
        #      the segments without a sign keep their equilibrium speed
        multi = [l for l in vsl_links if len(l["vsl"]) >= 2]
        if multi and ek == "numpy":
            NE, CE = drive.engines(M)
            vsame = copy.deepcopy(vals)
            for l in multi:
                V = min(R.veq(x, l["v_free"], l["rho_crit"], l["a"]) for x in vals[l["id"]]["rho"])
                cval = rng.choice((V * 0.6, V * 0.9, 50.0, 70.0))
                vsame[l["id"]]["v_ctrl"] = [cval] * len(l["vsl"])
            full = step_numbers(M, desc, vsame, pars, ek, symvals)
            built = D.build(M, desc)
            ic = drive.np_init(built, vsame, "vec1")
            form = rng.choice(("float", "0d", "len1"))
            for l in multi:
                cval = vsame[l["id"]]["v_ctrl"][0]
                ic[built.links[l["id"]]]["v_ctrl"] = {"float": float(cval), "0d": np.array(float(cval)), "len1": np.array([float(cval)])}[form]
            try:
                built.net.step(init_conditions=ic, engine=NE(), **drive.step_pars(pars))
                one = drive.read_next(built)
                rec.count("relation_R2b_single_value_for_all_signs")
                rec.seen("relations", ("R2b-one-value-for-all-signs", ek))
                cmp_all(rec, f"R2b one limit value for all signs ({form}) vs the same value per sign", ek, desc, one, full, vsame, pars)
            except Exception as e:
                rec.count("single_value_limit_not_accepted")
                rec.seen("single_value_limit_not_accepted", repr(e)[:100])
    # ---------- R3 / R4: ramps at r = 1
    ramps = [o for o in desc["origins"] if o["kind"] == "ramp"]
    if ramps:
        v1 = copy.deepcopy(vals)
        for o in ramps:
            v1[o["id"]]["r"] = 1.0
        d_in, d_out, d_simple = copy.deepcopy(desc), copy.deepcopy(desc), copy.deepcopy(desc)
        vs = copy.deepcopy(v1)
        for dd, eq in ((d_in, "in"), (d_out, "out")):
            for o in dd["origins"]:
                if o["kind"] == "ramp":
                    o["eq"] = eq
        for o in d_simple["origins"]:
            if o["kind"] == "ramp":
                o["kind"], o["eq"] = "simple", "limited"
                del vs[o["id"]]["r"]
                vs[o["id"]]["q"] = math.inf
        a = step_numbers(M, d_in, v1, pars, ek, symvals)
        b = step_numbers(M, d_out, v1, pars, ek, symvals)
        rec.count("relation_R3")
        rec.seen("relations", ("R3-in-vs-out-at-r1", ek))
        cmp_all(rec, "R3 metered 'in' vs 'out' at r=1", "numpy-tol" if ek == "numpy" else ek, desc, a, b, v1, pars)
        c = step_numbers(M, d_simple, vs, pars, ek, symvals)
        rec.count("relation_R4")
        rec.seen("relations", ("R4-simplified-inf-vs-metered-r1", ek))
        cmp_all(rec, "R4 limited simplified ramp with infinite desired flow vs metered ramp at r=1",
                "numpy-tol" if ek == "numpy" else ek, desc, c, b, vs, pars)
    # ---------- R5: mainstream origin with infinite limit
    mains = [o for o in desc["origins"] if o["kind"] == "main"]
    if mains:
        ins, outs, org, dst = R.topology(desc)
        vi, vf_ = copy.deepcopy(vals), copy.deepcopy(vals)
        for o in mains:
            lk = outs[o["node"]][0]
            vi[o["id"]]["v_ctrl"] = math.inf
            v1_ = vals[lk["id"]]["v"][0]
            vf_[o["id"]]["v_ctrl"] = rng.choice((v1_, v1_ + 1.0, 1e6))
        a = step_numbers(M, desc, vi, pars, ek, symvals)
        b = step_numbers(M, desc, vf_, pars, ek, symvals)
        rec.count("relation_R5")
        rec.seen("relations", ("R5-mainstream-infinite-limit", ek))
        cmp_all(rec, "R5 mainstream origin with infinite limit vs limit >= first-segment speed", ek, desc, a, b, vi, pars)


def multistep_neutral(M, rec, rng, g, n_runs, steps=12):
    """R1 over a history: a speed-limited network with infinite limits (the SAME limit arrays passed
    at every step, as a simulation loop does) vs the plain network, both fed back their own next
    states; the trajectories must coincide bitwise, and the limit arrays must stay infinite."""
    NE, CE = drive.engines(M)
    for _ in range(n_runs):
        _, desc = g.network(rng.choice(("chain", "ramp", "random", "merge", "bifurcation")), force=("vsl",))
        plain = copy.deepcopy(desc)
        for l in plain["links"]:
            l["vsl"], l["alpha"] = None, None
        pars = g.pars()
        kw = drive.step_pars(pars)
        _, vals = g.values(desc, "interior", allow_inf=False)
        if R.is_singular(desc, vals):
            continue
        bc, bp = D.build(M, desc), D.build(M, plain)
        limits = {l["id"]: np.full(len(l["vsl"]), np.inf) for l in desc["links"]}
        vc = {k: {n: (list(x) if isinstance(x, list) else x) for n, x in d.items()} for k, d in vals.items()}
        vp = {k: {n: (list(x) if isinstance(x, list) else x) for n, x in d.items() if n != "v_ctrl" or k not in limits}
              for k, d in vals.items()}
        rec.count("multistep_runs")
        rec.seen("relations", ("R1-infinite-limit-multistep", "numpy"))
        rec.seen("multistep_alpha_zero", any(l["alpha"] == 0.0 for l in desc["links"]))
        # (a third of the runs: single-precision state arrays, as a learning pipeline or float32 data files hand them over)
        single = rng.random() < 0.34
        if single:
            rec.count("multistep_runs_with_single_precision_states")

        def f32(ic):
            return {el_: {nm_: (x_.astype(np.float32) if isinstance(x_, np.ndarray) and x_.dtype == np.float64 and nm_ != "v_ctrl" else x_) for nm_, x_ in d_.items()}
                    for el_, d_ in ic.items()} if single else ic

        for k in range(steps):
            icc = drive.np_init(bc, vc, "vec1")
            for lid, arr in limits.items():
                icc[bc.links[lid]]["v_ctrl"] = arr
            try:
                bc.net.step(init_conditions=f32(icc), engine=NE(), positive_next_speed=True, **kw)
                bp.net.step(init_conditions=f32(drive.np_init(bp, vp, "vec1")), engine=NE(), positive_next_speed=True, **kw)
            except Exception as e:
                rec.violation(f"{PROP}:R1-multistep:numpy: stepping raised {type(e).__name__}", {"desc": desc, "exception": repr(e)[:300]})
                break
            a, b = drive.read_next(bc), drive.read_next(bp)
            rec.count("multistep_steps")
            if not all(np.isinf(arr).all() for arr in limits.values()):
                rec.violation(f"{PROP}:R1-multistep:numpy: infinite limits supplied by the caller became finite",
                              {"desc": desc, "step": k, "limits": {x: y.tolist() for x, y in limits.items()}})
                break
            if not cmp_all(rec, f"R1 infinite limit vs plain link over a history (step>={min(k, 1)})", "numpy", desc, a, b, vc, pars):
                break
            bad = False
            for eid, d in a.items():
                for n_, v in d.items():
                    xs = v if isinstance(v, list) else [v]
                    if any((not math.isfinite(x)) or abs(x) > 1e6 for x in xs):
                        bad = True
                    vc[eid][n_] = list(v) if isinstance(v, list) else v
                    vp[eid][n_] = list(v) if isinstance(v, list) else v
            for eid, d in b.items():
                for n_, v in d.items():
                    vp[eid][n_] = list(v) if isinstance(v, list) else v
            if bad:
                break


def relocated_signs(M, rec, rng, g, n_runs, steps=5):
    """A simulation in which signs are relocated while it runs: `link.vsl` (the live list) is edited in place between steps.
    Every call of the primitive is decided by the in-situ postcondition (listed segments limited, the others untouched);
    the same for direct calls that pass one list object again after the caller edited it."""
    from vf import workloads as W_

    NE, CE = drive.engines(M)
    for it in range(n_runs):
        _, desc = g.network(rng.choice(("chain", "ramp", "random", "merge", "bifurcation")), force=("vsl",))
        if not any(l.get("vsl") and l["N"] > len(l["vsl"]) for l in desc["links"]):
            continue
        pars = g.pars()
        kw = drive.step_pars(pars)
        built = D.build(M, desc)
        eng = NE()
        for k in range(steps):
            _, vals = g.values(desc, "interior", allow_inf=False)
            try:
                built.net.step(init_conditions=drive.np_init(built, vals, "vec1"), engine=eng, **kw)
            except Exception as e:
                rec.violation(f"{PROP}:relocated signs:numpy: stepping raised {type(e).__name__}", {"desc": desc, "exception": repr(e)[:300]})
                break
            if k:
                rec.count("steps_after_a_sign_was_relocated")
            W_.relocate_signs_inplace(built, desc, rng)
    for side in ("numpy", "casadi"):
        import sym_metanet.engines.casadi as EC
        import sym_metanet.engines.numpy as EN

        E = EN if side == "numpy" else EC
        for it in range(n_runs):
            N = rng.choice((3, 4, 6))
            vsl = sorted(rng.sample(range(N), rng.randint(1, N - 1)))
            for k in range(4):
                rho = [rng.uniform(5.0, 120.0) for _ in range(N)]
                vc = [rng.uniform(15.0, 70.0) for _ in vsl]
                mk = (lambda xs: np.array(xs, float)) if side == "numpy" else (lambda xs: cs.DM(xs))
                try:
                    E.LinksEngine.controlled_Veq(mk(rho), mk(vc), vsl, rng.choice((0.0, 0.1)), 102.0, 33.5, 1.867)
                except Exception as e:
                    rec.violation(f"{PROP}:relocated signs:{side}: controlled_Veq raised {type(e).__name__} on a list the caller edited in place",
                                  {"exception": repr(e)[:300], "vsl": list(vsl)})
                    break
                if k:
                    rec.count("direct_calls_after_the_list_was_edited")
                free = [i for i in range(N) if i not in vsl]
                if k % 2 == 0 and free:
                    vsl[rng.randrange(len(vsl))] = rng.choice(free)
                else:
                    vsl.reverse()


def ensemble_neutral_ramp_controls(M, rec, rng, n_runs):
    """R3/R4 over K scenarios at once (one NumPy `Network.step`, (1, K) link states, (K,) ramp variables, an uncertain jam /
    critical density given per scenario): with neutral controls - metering rate one, unbounded desired flow - the metered
    ramp of either variant and the limited simplified ramp admit the same flow, scenario by scenario the flow of the ramp law."""
    NE, CE = drive.engines(M)
    T, tau, eta, kappa = 10 / 3600, 18 / 3600, 60.0, 40.0
    for it in range(n_runs):
        K = rng.choice((2, 3, 4, 6))
        lanes, L, v_free, a, C = rng.choice((1, 2, 3)), 1.0, round(rng.uniform(90, 120), 1), round(rng.uniform(1.4, 2.4), 3), round(rng.uniform(1200, 3000), 0)
        per = rng.choice(("both", "rho_crit", "rho_max", "none"))
        rho_crit = np.array([round(rng.uniform(26.0, 39.0), 1) for _ in range(K)]) if per in ("both", "rho_crit") else round(rng.uniform(26.0, 39.0), 1)
        rho_max = np.array([round(rng.uniform(160.0, 195.0), 1) for _ in range(K)]) if per in ("both", "rho_max") else round(rng.uniform(160.0, 195.0), 1)
        rc_, rm_ = np.broadcast_to(np.asarray(rho_crit, float), (K,)), np.broadcast_to(np.asarray(rho_max, float), (K,))
        rho0 = np.array([[rng.uniform(rc_[k_], rm_[k_]) if rng.random() < 0.7 else rng.uniform(5.0, rc_[k_]) for k_ in range(K)]])
        v0 = np.array([[rng.uniform(5.0, v_free) for _ in range(K)]])
        w0 = np.array([rng.uniform(0.0, 60.0) for _ in range(K)])
        d0 = np.array([rng.uniform(500.0, 3000.0) for _ in range(K)])

        def run_(ramp, controls):
            n1, n2 = M.Node(name="N1"), M.Node(name="N2")
            link = M.Link(1, lanes, L, (rho_max.copy() if isinstance(rho_max, np.ndarray) else rho_max), (rho_crit.copy() if isinstance(rho_crit, np.ndarray) else rho_crit),
                          v_free, a, name="L")
            net = M.Network().add_path((n1, link, n2), origin=ramp, destination=M.Destination(name="D"))
            net.step(init_conditions={link: {"rho": rho0.copy(), "v": v0.copy()}, ramp: dict({"w": w0.copy(), "d": d0.copy()}, **controls)},
                     engine=NE(), T=T, tau=tau, eta=eta, kappa=kappa)
            return np.asarray(ramp.next_states["w"], float).reshape(-1), np.asarray(link.next_states["rho"], float).reshape(-1)

        try:
            res = {"metered[out], rate one": run_(M.MeteredOnRamp(C, "out", name="O"), {"r": np.ones(K)}),
                   "metered[in], rate one": run_(M.MeteredOnRamp(C, "in", name="O"), {"r": np.ones(K)}),
                   "simplified[limited], unbounded desired flow": run_(M.SimplifiedMeteredOnRamp(C, "limited", name="O"), {"q": np.full(K, np.inf)})}
        except Exception as e:
            rec.violation(f"{PROP}:ensemble of K scenarios with neutral ramp controls: stepping raised {type(e).__name__}", {"exception": repr(e)[:300], "per_scenario": per})
            continue
        rec.count("ensemble_neutral_control_runs")
        rec.seen("relations", ("R3/R4-neutral-ramp-controls-over-K-scenarios", "numpy"))
        q_exp = np.array([min(d0[k_] + w0[k_] / T, C * min(1.0, (rm_[k_] - rho0[0, k_]) / (rm_[k_] - rc_[k_]))) for k_ in range(K)])
        w_exp = w0 + T * (d0 - q_exp)
        for tag, (w_, rho_) in res.items():
            if w_.shape != (K,) or not np.allclose(w_, w_exp, rtol=1e-10, atol=1e-9):
                rec.violation(f"{PROP}:R3/R4 over K scenarios:numpy: with neutral controls the {tag.split(',')[0]} ramp does not admit the flow of the ramp law in every scenario",
                              {"per_scenario_parameters": per, "next_queues": w_.tolist(), "expected": w_exp.tolist(), "rho_crit": rc_.tolist(), "rho_max": rm_.tolist()})
                break


def dec_cveq(kind, args, kwargs, res, rec):
    names = ("rho", "v_ctrl", "vsl", "alpha", "v_free", "rho_crit", "a")
    a = dict(zip(names, args))
    a.update(kwargs)
    rho = primmon.flat(a["rho"])
    vc = primmon.flat(a["v_ctrl"]) if a["v_ctrl"] is not None else []
    vsl = [int(j_) % len(rho) for j_ in a["vsl"]] if len(rho) else list(a["vsl"])  # positions may be counted from the end
    if len(vc) == 1 and len(vsl) > 1:
        vc = vc * len(vsl)  # one value shown on every sign
    try:
        al, vf, rc, aa = (primmon.flat(a[k])[0] for k in ("alpha", "v_free", "rho_crit", "a"))
    except Exception:
        return
    if any(x < 0 or not math.isfinite(x) for x in rho) or any(math.isnan(x) or x < 0 for x in vc):
        return
    out = primmon.flat(res)
    rec.count("controlled_Veq_postconditions")
    for i, r_ in enumerate(rho):
        V = R.veq(r_, vf, rc, aa)
        if i in vsl:
            exp = min(V, (1 + al) * vc[vsl.index(i)])
            what = "listed segment != min(Veq, (1+alpha) v_ctrl)"
        else:
            exp = V
            what = "unlisted segment's equilibrium speed changed"
        # (single-precision states: the primitive computes in single precision, this postcondition in double)
        tol_ = 1e-5 if getattr(a["rho"], "dtype", None) == np.float32 or getattr(res, "dtype", None) == np.float32 else 1e-10
        if not (abs(out[i] - exp) <= tol_ * (1 + abs(exp))):
            rec.violation(f"{PROP}:controlled_Veq:{kind}: {what}",
                          {"engine": kind, "rho": rho, "v_ctrl": vc, "vsl": vsl, "alpha": al, "index": i,
                           "observed": out[i], "expected": exp})
            return


def direct_cveq(M, rec, rng, reps):
    import casadi as cs
    import sym_metanet.engines.casadi as EC
    import sym_metanet.engines.numpy as EN

    for _ in range(reps):
        N = rng.randint(1, 5)
        rho = [rng.choice((0.0, rng.uniform(1, 180))) for _ in range(N)]
        vsl = sorted(rng.sample(range(N), rng.randint(0, N)))
        vc = [rng.choice((math.inf, rng.uniform(5, 150), 0.0)) for _ in vsl]
        al, vf, rc, aa = rng.choice((rng.uniform(0, 0.3), rng.uniform(-0.2, 0.0))), rng.uniform(90, 130), rng.uniform(25, 40), rng.uniform(1.2, 3.2)
        side = "numpy" if rng.random() < 0.5 else "casadi"
        try:
            if side == "numpy":
                EN.LinksEngine.controlled_Veq(np.array(rho), np.array(vc, dtype=float), vsl, al, vf, rc, aa)
            else:
                EC.LinksEngine.controlled_Veq(cs.DM(rho), cs.DM(vc), vsl, al, vf, rc, aa)
        except Exception as e:
            rec.violation(f"{PROP}:controlled_Veq:{side}: raised {type(e).__name__} for {'no' if not vsl else 'some'} limited segment(s)",
                          {"engine": side, "rho": rho, "v_ctrl": vc, "vsl": vsl, "alpha": al, "exception": repr(e)[:300]})


def run(M, rec, tier, seed, k, n):
    np.seterr(all="ignore")
    rng = random.Random(seed * 1000 + k + 1800)
    symvals = O.SymVals(random.Random(seed + 3))
    pm = primmon.PrimMonitor(M, rec, PROP)
    pm.shadow = False
    pm.add_decider("controlled_Veq", dec_cveq)
    pm.install()
    try:
        direct_cveq(M, rec, rng, 3000 if tier == "quick" else 40000)
        from vf import batched

        batched.batched_primitives(M, rec, rng, PROP, 300 if tier == "quick" else 3000, which=("controlled_Veq",), monitors=(pm,))
        relations(M, rec, rng, 160 if tier == "quick" else 1200, symvals)
        multistep_neutral(M, rec, rng, G.NetGen(rng), 40 if tier == "quick" else 300)
        relocated_signs(M, rec, rng, G.NetGen(rng), 40 if tier == "quick" else 300)
        W.preallocated_buffers(M, rec, rng, PROP, 24 if tier == "quick" else 240, force=("vsl",), what="a speed-limited network (limits switched to infinity in place)")
        ensemble_neutral_ramp_controls(M, rec, rng, 40 if tier == "quick" else 400)
    finally:
        pm.uninstall()
    rec.sample({"relations": sorted(rec.cover.get("relations", []))})


def finish(M, rec, write=True):
    if not rec.violations:
        rel = rec.cover.get("relations", set())
        for r_ in ("R1-infinite-limit", "R1-no-limited-segment", "R2-finite-limit", "R3-in-vs-out-at-r1",
                   "R4-simplified-inf-vs-metered-r1", "R5-mainstream-infinite-limit"):
            for ek in ("numpy", "SX", "MX"):
                rec.gate(repr((r_, ek)) in rel, f"relation {r_} never evaluated on {ek}")
        rec.gate("binding" in rec.cover.get("limit_effect", set()), "no binding speed limit observed")
        rec.gate("True" in rec.cover.get("multistep_alpha_zero", set()), "no multi-step run with alpha = 0")
        rec.gate(rec.counters.get("controlled_Veq_postconditions", 0) > 0, "controlled_Veq never observed")
        rec.gate(rec.counters.get("monitor_internal_errors", 0) == 0, "monitor internal errors")
    return rec.finish(
        ["pair_scalars_compared", "controlled_Veq_postconditions", "limited_segments_compared", "multistep_steps"],
        ["relations", "limit_effect"],
        rule="paired networks built from one description (controlled element vs plain/neutral element) stepped from identical "
        "states with NumPy (bitwise comparison for R1/R2/R5), SX and MX (1e-12); relations R1..R5 of the module docstring; in-situ "
        "postcondition on controlled_Veq of both engines; distinct = (relation, engine) pairs + limit effects observed",
        write=write,
    )
