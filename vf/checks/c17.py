"""C17 — origin flows respect demand, capacity and space limits; queues stay >= 0.

In-situ postconditions on the three origin-flow primitives of both engines (under the
statement's preconditions) and at the network boundary (q_o inferred from the queue
update, w+ >= 0), driven by corner-seeking direct calls, stepped networks and closed-loop
simulations.
"""
import math
import random

import casadi as cs
import numpy as np

from vf import desc as D, drive, gen as G, monitors, oracle as O, primmon, refmodel as R, workloads as W

PROP = "C17"
WATCHDOG_S = 3000
TOL = 1e-9


def _f(x):
    return primmon.flat(x)[0]


def _args(names, args, kwargs):
    d = dict(zip(names, args))
    d.update(kwargs)
    return d


def bounds(rec, kind, what, q, dmd, w, T, cap, rho1, rho_max, zero_at_jam, witness):
    if not math.isfinite(q):
        rec.violation(f"{PROP}:{what}:{kind}: flow not finite under the preconditions", witness)
        return
    rec.count("bound_evaluations")
    if math.isinf(dmd):  # an inexhaustible supply (saturated origin): only the capacity / space limits bind, the queue only grows
        rec.count("bound_evaluations_with_infinite_demand")
        scale = 1.0 + abs(w) / T + abs(cap)
        if q < -TOL * scale:
            rec.violation(f"{PROP}:{what}:{kind}: flow negative", witness)
        if q > cap + TOL * scale:
            rec.violation(f"{PROP}:{what}:{kind}: flow exceeds capacity", witness)
        if zero_at_jam and rho1 == rho_max:
            rec.count("jam_evaluations")
            if abs(q) > TOL * scale:
                rec.violation(f"{PROP}:{what}:{kind}: flow not zero at maximum density", witness)
        return
    scale = 1.0 + abs(dmd) + abs(w) / T + abs(cap)
    if q < -TOL * scale:
        rec.violation(f"{PROP}:{what}:{kind}: flow negative", witness)
    if q > dmd + w / T + TOL * scale:
        rec.violation(f"{PROP}:{what}:{kind}: flow exceeds demand + queue/T", witness)
    if q > cap + TOL * scale:
        rec.violation(f"{PROP}:{what}:{kind}: flow exceeds capacity", witness)
    if zero_at_jam and rho1 == rho_max:
        rec.count("jam_evaluations")
        if abs(q) > TOL * scale:
            rec.violation(f"{PROP}:{what}:{kind}: flow not zero at maximum density", witness)
    wn = w + T * (dmd - q)
    if wn < -TOL * (1.0 + w + T * dmd):
        rec.violation(f"{PROP}:{what}:{kind}: next queue negative", witness)
    # which limits are active (coverage)
    act = []
    if abs(q - (dmd + w / T)) <= 1e-12 * scale:
        act.append("demand")
    if abs(q - cap) <= 1e-12 * scale:
        act.append("cap")
    if abs(q) <= 1e-12 * scale:
        act.append("zero")
    rec.seen("active_limits", (what, tuple(act)))


def dec_ramp(kind, args, kwargs, res, rec):
    a = _args(("d", "w", "C", "r", "rho_max", "rho_first", "rho_crit", "T", "type"), args, kwargs)
    eq = a.get("type", "out")
    try:
        d, w, C, r, rmax, r1, rc, T = (_f(a[k]) for k in ("d", "w", "C", "r", "rho_max", "rho_first", "rho_crit", "T"))
    except Exception:
        return
    if not (w >= 0 and d >= 0 and 0 <= r <= 1 and 0 <= r1 <= rmax and C >= 0 and rmax > rc > 0 and T > 0
            and all(map(math.isfinite, (w, C, r, rmax, r1, rc, T))) and not math.isnan(d)):
        rec.count("precondition_not_met")
        return
    bounds(rec, kind, f"metered[{eq}]", _f(res), d, w, T, C, r1, rmax, True,
           {"primitive": "get_ramp_flow", "engine": kind, "args": primmon._show(a), "flow": _f(res)})


def dec_simple(kind, args, kwargs, res, rec):
    a = _args(("qdes", "d", "w", "C", "rho_max", "rho_first", "rho_crit", "T", "type"), args, kwargs)
    eq = a.get("type", "limited")
    if eq != "limited":
        rec.count("unlimited_variant_not_bounded_by_definition")
        return
    try:
        qd, d, w, C, rmax, r1, rc, T = (_f(a[k]) for k in ("qdes", "d", "w", "C", "rho_max", "rho_first", "rho_crit", "T"))
    except Exception:
        return
    if not (w >= 0 and d >= 0 and qd >= 0 and 0 <= r1 <= rmax and C >= 0 and rmax > rc > 0 and T > 0
            and all(map(math.isfinite, (w, C, rmax, r1, rc, T))) and not math.isnan(qd) and not math.isnan(d)):
        rec.count("precondition_not_met")
        return
    bounds(rec, kind, "simplified[limited]", _f(res), d, w, T, C, r1, rmax, True,
           {"primitive": "get_simplifiedramp_flow", "engine": kind, "args": primmon._show(a), "flow": _f(res)})
    if _f(res) > qd + TOL * (1 + abs(qd)):
        rec.violation(f"{PROP}:simplified[limited]:{kind}: flow exceeds the desired flow",
                      {"args": primmon._show(a), "flow": _f(res)})


def dec_main(kind, args, kwargs, res, rec):
    a = _args(("d", "w", "v_ctrl", "v_first", "rho_crit", "a", "v_free", "lanes", "T"), args, kwargs)
    try:
        d, w, vc, v1, rc, aa, vf, lam, T = (_f(a[k]) for k in ("d", "w", "v_ctrl", "v_first", "rho_crit", "a", "v_free", "lanes", "T"))
    except Exception:
        return
    if not (w >= 0 and d >= 0 and vc >= 0 and v1 >= 0 and rc > 0 and 1.0 <= aa <= 3.5 and vf > 0 and lam > 0 and T > 0
            and all(map(math.isfinite, (w, v1, rc, aa, vf, lam, T))) and not math.isnan(vc) and not math.isnan(d)):
        rec.count("precondition_not_met")
        return
    cap = lam * vf * math.exp(-1.0 / aa) * rc
    bounds(rec, kind, "mainstream", _f(res), d, w, T, cap, 0.0, 1.0, False,
           {"primitive": "get_mainstream_flow", "engine": kind, "args": primmon._show(a), "flow": _f(res),
            "capacity_flow": cap})


def _batched(dec, names):
    """The primitives are element-wise: a call on arrays of n entries (a density grid, a logged trajectory)
    is decided entry by entry."""

    def wrapped(kind, args, kwargs, res, rec):
        a = _args(names, args, kwargs)
        try:
            flats = {k: primmon.flat(v) for k, v in a.items() if k != "type" and v is not None}
            rflat = primmon.flat(res)
        except Exception:
            return dec(kind, args, kwargs, res, rec)
        n = max([len(v) for v in flats.values()] + [len(rflat)])
        if n <= 1:
            return dec(kind, args, kwargs, res, rec)
        if any(len(v) not in (1, n) for v in flats.values()) or len(rflat) != n:
            rec.violation(f"{PROP}:{dec.__name__[4:]}:{kind}: element-wise call on {n} entries returns {len(rflat)} values", {"args": primmon._show(a)})
            return
        rec.count("vectorised_primitive_calls")
        for i in range(n):
            kw_i = {k: (v[i] if len(v) == n else v[0]) for k, v in flats.items()}
            if "type" in a:
                kw_i["type"] = a["type"]
            dec(kind, (), kw_i, rflat[i], rec)

    return wrapped


def dec_queue(kind, args, kwargs, res, rec):
    rec.count("step_queue_calls")


def vectorised_calls(M, rec, rng, reps):
    """The origin-flow primitives evaluated on whole arrays at once (a grid of first-segment densities
    from free flow to jam, with varying demand / queue / rate), NumPy arrays and CasADi DM vectors."""
    import sym_metanet.engines.casadi as EC
    import sym_metanet.engines.numpy as EN

    for _ in range(reps):
        side = rng.choice(("numpy", "numpy", "casadi"))
        E = EN if side == "numpy" else EC
        vec = (lambda xs: np.array(xs, dtype=float)) if side == "numpy" else (lambda xs: cs.DM([float(t) for t in xs]))
        n = rng.randint(2, 9)
        T = rng.choice((10, 5, 15)) / 3600
        rmax, rc, C = rng.uniform(160, 200), rng.uniform(25, 40), rng.uniform(1000, 4500)
        r1 = sorted(rng.choice((0.0, rc, rmax, rng.uniform(0, rc), rng.uniform(rc, rmax))) for _i in range(n))
        if rng.random() < 0.5:
            r1[-1] = rmax
        d = [rng.choice((0.0, rng.uniform(0, 2 * C))) for _i in range(n)]
        w = [rng.choice((0.0, rng.uniform(0, 300))) for _i in range(n)]
        which = rng.choice(("ramp", "ramp", "simple"))
        try:
            if which == "ramp":
                r_ = [rng.choice((0.0, 1.0, rng.random())) for _i in range(n)]
                E.OriginsEngine.get_ramp_flow(vec(d), vec(w), C, vec(r_), rmax, vec(r1), rc, T, rng.choice(("in", "out")))
            else:
                qd = [rng.choice((0.0, rng.uniform(0, 2 * C), 1e9)) for _i in range(n)]
                E.OriginsEngine.get_simplifiedramp_flow(vec(qd), vec(d), vec(w), C, rmax, vec(r1), rc, T, "limited")
        except Exception as e:
            rec.violation(f"{PROP}:{which}:{side}: element-wise call on {n} entries raised {type(e).__name__}", {"exception": repr(e)[:300]})


def corner_calls(M, rec, rng, reps):
    import sym_metanet.engines.casadi as EC
    import sym_metanet.engines.numpy as EN

    for _ in range(reps):
        side = rng.choice(("numpy", "casadi"))
        E = EN if side == "numpy" else EC
        if side == "numpy":
            mode = rng.choice(("f", "0d", "1"))
            s = {"f": float, "0d": lambda x: np.array(float(x)), "1": lambda x: np.array([float(x)])}[mode]
        else:
            s = lambda x: cs.DM(float(x))  # noqa: E731
        T = rng.choice((10, 5, 15, 7.5, 7.5, 3600 * 1.5, 3600 * 4.0)) / 3600  # incl. sampling times > 1 (w/T vs w*T)
        rmax = rng.uniform(160, 200)
        rc = rng.uniform(25, 40)
        C = rng.uniform(1000, 4500)
        space_full = rng.random() < 0.5
        r1 = rng.choice((0.0, rc, rmax, rmax, rng.uniform(0, rc), rng.uniform(rc, rmax),
                         rmax - (rmax - rc) * rng.random() * 0.2))
        spacefrac = min(1.0, (rmax - r1) / (rmax - rc))
        r_ = rng.choice((0.0, 1.0, rng.random(), spacefrac))
        w = rng.choice((0.0, 0.0, rng.uniform(0, 5), rng.uniform(5, 800)))
        # demand chosen to sit below, at or above the active capacity
        capnow = C * spacefrac
        d = rng.choice((0.0, capnow, max(0.0, capnow - w / T), rng.uniform(0, 2 * C), rng.uniform(0, 50)))
        if rng.random() < 0.08:
            d = math.inf  # a saturated origin with an inexhaustible supply (also with the ramp closed, r = 0)
        which = rng.choice(("ramp", "ramp", "simple", "main"))
        rec.count("corner_calls")
        s1 = s
        if side == "numpy" and which != "main" and rng.random() < 0.12:
            # detector densities stored as unsigned integers, the customary whole-number parameters as Python ints
            rmax, rc, C = int(round(rmax)), int(round(rc)), int(round(C))
            r1 = float(min(int(round(r1)), rmax))
            dt_ = rng.choice((np.uint16, np.uint32))
            s1 = lambda x, dt_=dt_: np.array([int(x)], dtype=dt_)  # noqa: E731
            rec.count("corner_calls_with_unsigned_integer_densities")
        if which == "ramp":
            r_arg = s(r_)
            if side == "numpy" and r_ in (0.0, 1.0) and rng.random() < 0.4:
                # an on/off metering signal: the rate as a boolean (`r = rho_first < rho_crit`)
                r_arg = rng.choice((bool(r_), np.bool_(bool(r_)), np.array([bool(r_)])))
                rec.count("corner_calls_with_a_boolean_metering_rate")
            E.OriginsEngine.get_ramp_flow(s(d), s(w), C, r_arg, rmax, s1(r1), rc, T, "".join(list(rng.choice(("in", "out")))))
        elif which == "simple":
            qd = rng.choice((0.0, math.inf, capnow, d + w / T, rng.uniform(0, 2 * C)))
            E.OriginsEngine.get_simplifiedramp_flow(s(qd), s(d), s(w), C, rmax, s1(r1), rc, T, "".join(list("limited")))
        else:
            a = rng.uniform(1.0, 3.5)
            vf = rng.uniform(90, 130)
            lam = rng.choice((1, 2, 3, 4))
            Vc = vf * math.exp(-1 / a)
            v1 = rng.choice((0.0, Vc, vf, rng.uniform(0, vf), 0.05 * vf, 0.049 * vf, vf * 1.2))
            vc = rng.choice((math.inf, 0.0, v1, Vc, rng.uniform(0, 2 * vf), 0.05 * vf))
            qcap = lam * Vc * rc
            dm = rng.choice((0.0, qcap, rng.uniform(0, 2 * qcap), max(0.0, qcap - w / T)))
            if math.isinf(d):
                dm = math.inf
            if rng.random() < 0.15:
                # the lane count as an element of a down-cast integer table, the critical density a whole number
                lam = rng.choice((np.int8, np.uint8, np.int16))(rng.choice((3, 4)))
                rc = int(round(rc)) + rng.choice((0, 10, 20))
                rec.count("corner_calls_with_a_narrow_integer_lane_count")
            E.OriginsEngine.get_mainstream_flow(s(dm), s(w), s(vc), s(v1), rc, a, vf, lam, T)


CURRENT = {}


def on_case(case, built):
    CURRENT["case"], CURRENT["built"] = case, built


def decide_network(ob, rec):
    """Network boundary: q_o inferred from the queue update and w+ of every origin."""
    case, built = CURRENT.get("case"), CURRENT.get("built")
    if case is not None and built is not None and any(built.net is n_ for n_ in (getattr(ob, "net", None), built.net)):
        # capacities, variants and parameters are those the caller declared (and last set), not whatever the
        # live objects happen to hold
        try:
            if set(id(e_) for e_ in built.elements.values()) >= set(id(ob.objmap[e_["id"]]) for g_ in ("links", "origins", "dests") for e_ in ob.desc[g_]):
                O.apply_declared(ob, case["desc"], built, rec)
        except Exception:
            pass
    if not O.admissible(ob) or ob.opts.get("positive_next_queue"):
        return
    ins, outs, org, dst = R.topology(ob.desc)
    T = ob.pars["T"]
    for o in ob.desc["origins"]:
        if o["kind"] == "ideal" or (o["kind"] == "simple" and o["eq"] == "unlimited"):
            continue
        lk = outs[o["node"]][0]
        r1 = ob.vals[lk["id"]]["rho"][0]
        if r1 > lk["rho_max"]:
            rec.count("network_precondition_not_met")
            continue
        if o["kind"] == "main" and not (1.0 <= lk["a"] <= 3.5):
            continue
        s = ob.vals[o["id"]]
        wn = ob.nxt.get(o["id"], {}).get("w")
        if wn is None or not math.isfinite(wn):
            rec.violation(f"{PROP}:network:{ob.kind}: next queue of a {o['kind']} origin missing or not finite",
                          O.witness(ob, o["id"], None, None))
            continue
        q = s["d"] - (wn - s["w"]) / T
        cap = o["C"] if o["kind"] != "main" else lk["lam"] * lk["v_free"] * math.exp(-1 / lk["a"]) * lk["rho_crit"]
        rec.count("network_origin_evaluations")
        scale = 1.0 + s["d"] + s["w"] / T + cap
        wit = dict(O.witness(ob, o["id"], None, None), inferred_flow=q, capacity=cap)
        if wn < -TOL * (1 + s["w"] + T * s["d"]):
            rec.violation(f"{PROP}:network:{ob.kind}:{o['kind']}[{o['eq']}]: next queue negative", wit)
        # inferring q from w+ amplifies rounding by 1/T
        tol = 1e-7 * scale
        if q < -tol:
            rec.violation(f"{PROP}:network:{ob.kind}:{o['kind']}[{o['eq']}]: admitted flow negative", wit)
        if q > cap + tol:
            rec.violation(f"{PROP}:network:{ob.kind}:{o['kind']}[{o['eq']}]: admitted flow exceeds capacity", wit)
        if o["kind"] != "main" and r1 == lk["rho_max"] and abs(q) > tol:
            rec.violation(f"{PROP}:network:{ob.kind}:{o['kind']}[{o['eq']}]: admitted flow not zero at maximum density", wit)
        rec.seen("network_origin_kinds", (ob.kind, o["kind"], o["eq"]))


def replaced_link_scenarios(M, rec, rng, g, reps):
    """Scripted in every run: the link fed by an origin is replaced (public API, same edge) by one with other
    capacity-relevant parameters after a step; the next step is taken with the first segment of the NEW link
    at its maximum / critical density, where the bounds of the new link bite."""
    import copy

    NE, CE = drive.engines(M)
    for i in range(reps):
        kind, eq = (("ramp", "in"), ("ramp", "out"), ("simple", "limited"), ("main", None))[i % 4]
        desc = {"nodes": ["n0", "n1"],
                "links": [{"id": "L0", "name": "L0", "up": "n0", "down": "n1", "N": rng.choice((1, 2, 3)), "lam": rng.choice((2, 3)), "L": 1.0,
                           "rho_max": 180.0, "rho_crit": 33.5, "v_free": 102.0, "a": 1.867, "beta": 1.0, "vsl": None, "alpha": None}],
                "origins": [{"id": "O0", "name": "O0", "node": "n0", "kind": kind, "C": 2500.0 if kind != "main" else None, "eq": eq}],
                "dests": [{"id": "D0", "name": "D0", "node": "n1", "kind": "free"}]}
        built = D.build(M, desc)
        pars = g.pars()
        kw = drive.step_pars(pars)
        _, v0 = g.values(desc, "interior", allow_inf=False)
        on_case({"desc": desc}, built)
        try:
            built.net.step(init_conditions=drive.np_init(built, v0, "vec1"), engine=NE(), **kw)
        except Exception:
            continue
        d2 = copy.deepcopy(desc)
        l2 = d2["links"][0]
        l2.update(rho_max=round(rng.uniform(90.0, 130.0), 1), rho_crit=round(rng.uniform(20.0, 28.0), 1), v_free=round(rng.uniform(70.0, 90.0), 1),
                  lam=rng.choice((1, 2)), name="L0r")
        _n, links, _o, _d = D.make_objects(M, {"nodes": [], "links": [l2], "origins": [], "dests": []})
        built.links["L0"] = links["L0"]
        built.net.add_link(built.nodes["n0"], links["L0"], built.nodes["n1"])
        built.desc = d2
        _, vals = g.values(d2, "interior", allow_inf=False)
        vals["L0"]["rho"][0] = rng.choice((l2["rho_max"], l2["rho_max"], 0.5 * (l2["rho_max"] + l2["rho_crit"])))
        vals["O0"]["d"] = rng.uniform(2000.0, 6000.0)
        vals["O0"]["w"] = rng.uniform(0.0, 200.0)
        if "r" in vals["O0"]:
            vals["O0"]["r"] = 1.0
        if "q" in vals["O0"]:
            vals["O0"]["q"] = 1e6
        if kind == "main":
            vals["O0"]["v_ctrl"] = 500.0
            vals["L0"]["v"][0] = l2["v_free"]
        on_case({"desc": d2}, built)
        rec.count("replaced_link_scenarios")
        try:
            built.net.step(init_conditions=drive.np_init(built, vals, "vec1"), engine=NE(), **kw)
        except Exception:
            pass


def ensemble_steps(M, rec, rng, sm, reps):
    """Scripted in every run: K traffic scenarios pushed through ONE NumPy `Network.step` of a chain of single-segment
    links ((1, K) link states, (K,) origin variables; works on the unchanged library because every primitive broadcasts).
    The bounds are decided per scenario from the declared inputs; some scenarios sit at the maximum density."""
    import sym_metanet as sm_
    NE, _CE = drive.engines(M)
    was = sm.enabled
    sm.enabled = False
    try:
        for i in range(reps):
            K = rng.choice((2, 3, 5))
            nl = rng.choice((2, 3))
            rho_max, rho_crit, v_free, a = 180.0, round(rng.uniform(28.0, 38.0), 1), round(rng.uniform(90.0, 120.0), 1), round(rng.uniform(1.4, 2.4), 3)
            lam = rng.choice((1, 2, 3))
            nodes = [sm_.Node(name=f"EN{j}") for j in range(nl + 1)]
            # (an uncertain jam / critical density: one value per scenario, a (K,) array, on some links)
            per_scen = [rng.random() < 0.5 for _ in range(nl)]
            rmax_l = [np.array([round(rng.uniform(160.0, 195.0), 1) for _ in range(K)]) if per_scen[j] else rho_max for j in range(nl)]
            rcrit_l = [np.array([round(rng.uniform(26.0, 39.0), 1) for _ in range(K)]) if per_scen[j] else rho_crit for j in range(nl)]
            links = [sm_.Link(1, lam, 1.0, rmax_l[j], rcrit_l[j], v_free, a, name=f"EL{j}") for j in range(nl)]
            if any(per_scen):
                rec.count("ensemble_steps_with_per_scenario_link_parameters")
            # (a mainstream origin does not accept ensembles on the unchanged tree: its speed-limit branch needs one truth value)
            kinds = [(("ramp", "in"), ("ramp", "out"), ("simple", "limited"))[(i + j) % 3] for j in range(nl)]
            origins = []
            caps = []
            for j, (kind, eq) in enumerate(kinds):
                C = round(rng.uniform(1200.0, 3000.0), 0)
                if kind == "ramp":
                    origins.append(sm_.MeteredOnRamp(C, eq, name=f"EO{j}"))
                elif kind == "simple":
                    origins.append(sm_.SimplifiedMeteredOnRamp(C, eq, name=f"EO{j}"))
                else:
                    origins.append(sm_.MainstreamOrigin(name=f"EO{j}"))
                    C = lam * v_free * math.exp(-1 / a) * rho_crit
                caps.append(C)
            dest = sm_.Destination(name="ED")
            net = sm_.Network(name="ens")
            path = [nodes[0]]
            for j in range(nl):
                path += [links[j], nodes[j + 1]]
            net.add_path(path=tuple(path), origin=origins[0], destination=dest)
            for j in range(1, nl):
                net.add_origin(origins[j], nodes[j])
            ic = {}
            decl = []
            for j in range(nl):
                rm_ = np.broadcast_to(np.asarray(rmax_l[j], float), (K,))
                rc_ = np.broadcast_to(np.asarray(rcrit_l[j], float), (K,))
                rho = np.array([[rng.choice((rm_[k_], rm_[k_], rng.uniform(5.0, rc_[k_]), rng.uniform(rc_[k_], rm_[k_]))) for k_ in range(K)]])
                if all(rho[0, k_] == rm_[k_] for k_ in range(K)):
                    rho[0, -1] = rng.uniform(5.0, rc_[-1])
                v = np.array([[rng.uniform(1.0, v_free) for _ in range(K)]])
                ic[links[j]] = {"rho": rho.copy(), "v": v.copy()}
                w = np.array([rng.choice((0.0, rng.uniform(0.0, 60.0))) for _ in range(K)])
                d = np.array([rng.uniform(300.0, 4000.0) for _ in range(K)])
                o = {"w": w.copy(), "d": d.copy()}
                kind, eq = kinds[j]
                if kind == "ramp":
                    o["r"] = np.array([rng.choice((1.0, rng.uniform(0.2, 1.0))) for _ in range(K)])
                elif kind == "simple":
                    o["q"] = np.array([rng.choice((1e6, rng.uniform(200.0, 3000.0))) for _ in range(K)])
                else:
                    o["v_ctrl"] = np.array([rng.choice((500.0, rng.uniform(20.0, v_free))) for _ in range(K)])
                ic[origins[j]] = o
                decl.append((rho, v, w, d, rm_))
            pars = dict(T=10 / 3600, tau=18 / 3600, eta=60.0, kappa=40.0, delta=0.0122, phi=1.8)
            T = pars["T"]
            try:
                net.step(init_conditions=ic, engine=NE(), **pars)
                wn_all = [np.asarray(o.next_states["w"], float).reshape(-1) for o in origins]
            except Exception as e:
                rec.violation(f"{PROP}:ensemble: one Network.step over K scenarios of a single-segment chain failed ({type(e).__name__})",
                              {"K": K, "kinds": kinds, "error": repr(e)[:300]})
                continue
            rec.count("ensemble_steps")
            for j, (kind, eq) in enumerate(kinds):
                rho, v, w, d, rm_ = decl[j]
                wn = wn_all[j]
                if wn.shape != (K,):
                    rec.violation(f"{PROP}:ensemble:{kind}[{eq}]: next queue does not hold one value per scenario", {"K": K, "shape": list(wn.shape)})
                    continue
                for k_ in range(K):
                    q = d[k_] - (wn[k_] - w[k_]) / T
                    cap = caps[j]
                    scale = 1.0 + d[k_] + w[k_] / T + cap
                    tol = 1e-7 * scale
                    wit = {"K": K, "scenario": k_, "origin": f"{kind}[{eq}]", "rho_first_declared": rho[0].tolist(), "w": w.tolist(), "d": d.tolist(),
                           "w_next": wn.tolist(), "inferred_flow": q, "capacity": cap, "rho_max": rm_.tolist()}
                    rec.count("ensemble_origin_evaluations")
                    rec.count("network_origin_evaluations")
                    if wn[k_] < -TOL * (1 + w[k_] + T * d[k_]):
                        rec.violation(f"{PROP}:ensemble:{kind}[{eq}]: next queue negative", wit)
                    if q < -tol:
                        rec.violation(f"{PROP}:ensemble:{kind}[{eq}]: admitted flow negative", wit)
                    if q > cap + tol:
                        rec.violation(f"{PROP}:ensemble:{kind}[{eq}]: admitted flow exceeds capacity", wit)
                    if q > d[k_] + w[k_] / T + tol:
                        rec.violation(f"{PROP}:ensemble:{kind}[{eq}]: admitted flow exceeds demand plus queue", wit)
                    if kind != "main" and rho[0, k_] == rm_[k_]:
                        rec.count("jam_evaluations")
                        if abs(q) > tol:
                            rec.violation(f"{PROP}:ensemble:{kind}[{eq}]: admitted flow not zero at maximum density", wit)
    finally:
        sm.enabled = was


def restepped_models(M, rec, rng, g, n_nets):
    """The flows REPORTED by a compiled function (more_out) obey the bounds too, also for a model whose last step was taken
    by the caller's own per-element loop with another sampling time than an earlier `Network.step` of the same objects
    (a simulation model and a prediction model over the same variables): the bounds are those of the last step's T."""
    from vf import compilecases as CC

    sh = W.shapes_cycle()
    for it in range(n_nets):
        desc = g.network(("ramp", "merge", "chain", next(sh))[it % 4])[1]
        if not any(o["kind"] in ("ramp", "simple", "main") for o in desc["origins"]):
            continue
        if any(o.get("user") or o.get("user_cap_flow") is not None for o in desc["origins"]):
            continue
        pars = g.pars()
        T2 = rng.choice([t for t in (5.0, 20.0, 30.0, 60.0) if abs(t / 3600.0 - pars["T"]) > 1e-9]) / 3600.0
        st = ("SX", "MX")[it % 2]
        try:
            case = CC.CompileCase(M, rng, desc, pars, st, [], {}, own_symbols=(it % 4 < 2), prestep="step", restep_T=T2)
            compact = rng.choice((0, 1, 2))
            F = case.compile(compact, True)
        except Exception:
            rec.count("restepped_models_failed_to_build")
            continue
        if not getattr(case, "restepped", False):
            continue
        ins, outs, org, dst = R.topology(desc)
        for _pt in range(3):
            _, vals = g.values(desc, "interior", allow_inf=False)
            for o in desc["origins"]:  # a waiting queue and a modest demand: demand + queue/T is the active limit
                if o["id"] not in vals:
                    continue
                if "w" in vals[o["id"]]:
                    vals[o["id"]]["w"] = rng.uniform(2.0, 30.0)
                    vals[o["id"]]["d"] = rng.uniform(100.0, 600.0)
                if "r" in vals[o["id"]]:
                    vals[o["id"]]["r"] = 1.0
                if "q" in vals[o["id"]]:
                    vals[o["id"]]["q"] = 1e5
                if "v_ctrl" in vals[o["id"]]:
                    vals[o["id"]]["v_ctrl"] = 400.0
            if R.is_singular(desc, vals):
                continue
            try:
                xn, q, qo = case.call(F, vals, compact, True)
            except Exception:
                rec.count("restepped_models_failed_to_evaluate")
                break
            rec.count("restepped_model_evaluations")
            for o in desc["origins"]:
                if o["kind"] == "ideal" or (o["kind"] == "simple" and o["eq"] == "unlimited") or o["id"] not in (qo or {}):
                    continue
                lk = outs[o["node"]][0]
                r1 = vals[lk["id"]]["rho"][0]
                if r1 > lk["rho_max"] or (o["kind"] == "main" and not (1.0 <= lk["a"] <= 3.5)):
                    continue
                sv = vals[o["id"]]
                cap = o["C"] if o["kind"] != "main" else lk["lam"] * lk["v_free"] * math.exp(-1 / lk["a"]) * lk["rho_crit"]
                what = {"ramp": f"metered[{o['eq']}]", "simple": "simplified[limited]", "main": "mainstream"}[o["kind"]]
                rec.count("network_origin_evaluations")
                bounds(rec, f"reported by the function of a model stepped again with another sampling time ({st})", what, qo[o["id"]], sv["d"], sv["w"], T2,
                       cap, r1, lk["rho_max"], o["kind"] != "main",
                       {"desc": desc, "vals": vals, "T_of_the_last_step": T2, "T_of_the_earlier_step": pars["T"], "origin": o["id"], "reported_flow": qo[o["id"]],
                        "compact": compact})


def ramps_at_user_nodes(M, rec, rng, g, reps):
    """Scripted in every run: an on-ramp at a user-defined node whose own downstream density (what it tells the ENTERING links
    lies ahead) is lower than the first segment of the leaving link, which is at its maximum density / above critical: the
    ramp's flow law reads the first segment of its link (decided at the network boundary by the in-situ monitor)."""
    NE, CE = drive.engines(M)
    for i in range(reps):
        kind, eq = (("ramp", "in"), ("ramp", "out"), ("simple", "limited"))[i % 3]

        def lk(j, up, dn):
            return {"id": f"L{j}", "name": f"L{j}", "up": up, "down": dn, "N": rng.choice((2, 3)), "lam": 2, "L": 1.0, "rho_max": 180.0,
                    "rho_crit": round(rng.uniform(28, 38), 1), "v_free": 102.0, "a": 1.867, "beta": 1.0, "vsl": None, "alpha": None}

        desc = {"nodes": ["n0", "n1", "n2"], "links": [lk(0, "n0", "n1"), lk(1, "n1", "n2")],
                "origins": [{"id": "O0", "name": "O0", "node": "n0", "kind": "main", "C": None, "eq": None},
                            {"id": "O1", "name": "O1", "node": "n1", "kind": kind, "C": 2000.0, "eq": eq}],
                "dests": [{"id": "D0", "name": "D0", "node": "n2", "kind": "free"}],
                "node_off": {"n1": 0.0}, "node_block": {"n1": round(rng.uniform(5.0, 40.0), 1)}}
        built = D.build(M, desc)
        pars = g.pars()
        _, vals = g.values(desc, "interior", allow_inf=False)
        vals["L1"]["rho"][0] = 180.0 if i % 2 == 0 else rng.uniform(120.0, 180.0)
        vals["O1"].update(d=rng.uniform(1500.0, 3000.0), w=rng.uniform(5.0, 50.0))
        if "r" in vals["O1"]:
            vals["O1"]["r"] = 1.0
        if "q" in vals["O1"]:
            vals["O1"]["q"] = 1e5
        on_case({"desc": desc}, built)
        rec.count("ramps_at_user_defined_nodes")
        try:
            built.net.step(init_conditions=drive.np_init(built, vals, "vec1"), engine=NE(), **drive.step_pars(pars))
        except Exception:
            pass


def run(M, rec, tier, seed, k, n):
    np.seterr(all="ignore")
    rng = random.Random(seed * 1000 + k + 1700)
    pm = primmon.PrimMonitor(M, rec, PROP)
    pm.shadow = False
    pm.add_decider("get_ramp_flow", _batched(dec_ramp, ("d", "w", "C", "r", "rho_max", "rho_first", "rho_crit", "T", "type")))
    pm.add_decider("get_simplifiedramp_flow", _batched(dec_simple, ("qdes", "d", "w", "C", "rho_max", "rho_first", "rho_crit", "T", "type")))
    pm.add_decider("get_mainstream_flow", _batched(dec_main, ("d", "w", "v_ctrl", "v_first", "rho_crit", "a", "v_free", "lanes", "T")))
    pm.add_decider("step_queue", dec_queue)
    pm.install()
    symvals = O.SymVals(random.Random(seed + 1))
    sm = monitors.StepMonitor(M, rec, symvals, deciders=[decide_network]).install()

    def on_step(kk, desc, vals, nxt, pars, built, info):
        # whole-run queue non-negativity (closed loop), unlimited ramps excluded
        ins, outs, org, dst = R.topology(desc)
        for o in desc["origins"]:
            if o["kind"] == "ideal" or (o["kind"] == "simple" and o["eq"] == "unlimited"):
                continue
            lk = outs[o["node"]][0]
            if vals[lk["id"]]["rho"][0] > lk["rho_max"] or not (1.0 <= lk["a"] <= 3.5):
                continue
            rec.count("closed_loop_queue_checks")
            if nxt[o["id"]]["w"] < -TOL * (1 + vals[o["id"]]["w"] + pars["T"] * vals[o["id"]]["d"]):
                rec.violation(f"{PROP}:closed-loop: queue of a {o['kind']}[{o['eq']}] origin became negative",
                              {"desc": desc, "step": kk, "vals": vals, "next": nxt})

    try:
        corner_calls(M, rec, rng, 20000 if tier == "quick" else 250000)
        vectorised_calls(M, rec, rng, 1500 if tier == "quick" else 20000)
        W.numpy_steps(M, rec, rng, 200 if tier == "quick" else 1500, draws=3, mutate_prob=0.6,
                      mutate_prefer=("flow_equation", "capacity", "fd"), before_case=on_case)
        W.symbolic_steps(M, rec, rng, symvals, 12 if tier == "quick" else 80, points=2)
        W.inplace_pairs(M, rec, rng, 40 if tier == "quick" else 400, allow_inf=False, before_case=on_case)
        replaced_link_scenarios(M, rec, rng, G.NetGen(rng), 24 if tier == "quick" else 200)
        ensemble_steps(M, rec, rng, sm, 24 if tier == "quick" else 200)
        restepped_models(M, rec, rng, G.NetGen(rng), 24 if tier == "quick" else 200)
        # user-defined node kinds with their own node rules (also their own downstream density) at the ramps' nodes: what a ramp
        # may admit is decided by the first segment of ITS link
        W.user_node_rules(M, rec, rng, 30 if tier == "quick" else 300, before_case=on_case, regimes=("jam", "boundary", "interior", "jam"))
        ramps_at_user_nodes(M, rec, rng, G.NetGen(rng), 18 if tier == "quick" else 120)
        W.closed_loop(M, rec, rng, 7 if tier == "quick" else 14, 90 if tier == "quick" else 260, on_step=on_step)
    finally:
        sm.uninstall()
        pm.uninstall()
    rec.sample({"note": "active limit combinations observed are listed in coverage_set_members.active_limits"})


def finish(M, rec, write=True):
    if not rec.violations:
        al = rec.cover.get("active_limits", set())
        for what in ("metered[in]", "metered[out]", "simplified[limited]", "mainstream"):
            for lim in ("demand", "cap"):
                rec.gate(any(a.startswith(f"('{what}'") and f"'{lim}'" in a for a in al),
                         f"limit {lim} never active for {what}")
        rec.gate(rec.counters.get("jam_evaluations", 0) > 0, "maximum-density case never evaluated")
        rec.gate(rec.counters.get("network_origin_evaluations", 0) > 0, "no origin observed at the network boundary")
        rec.gate(rec.counters.get("monitor_internal_errors", 0) == 0, "monitor internal errors")
    return rec.finish(
        ["bound_evaluations", "network_origin_evaluations", "closed_loop_queue_checks"],
        ["active_limits", "network_origin_kinds"],
        rule="postconditions 0 <= q <= d + w/T, q <= capacity (mainstream: lanes V(rho_crit) rho_crit), q = 0 at maximum density, "
        "w+ >= 0 evaluated on every call of the three origin-flow primitives of both engines (corner-seeking direct calls: several "
        "limits active at once, exact ties, jam density, zero queue/demand, infinite desired flow/speed limit; plus the calls made by "
        "stepped networks) and at the network boundary (NumPy, SX, MX steps, closed-loop runs); distinct = combinations of active "
        "limits per origin law + (engine, origin kind) pairs at the network boundary",
        assumptions=["a in [1, 3.5] for the mainstream capacity bound under the library's log guard (DESIGN.md section 5)",
                     "the unlimited simplified ramp is excluded by the statement"],
        write=write,
    )
