"""C01 — one step equals the METANET equations on every valid network.

In-situ monitor on ``Network.step``: every returned step is compared, scalar by
scalar, with the scalar reference evaluated on the description extracted from the raw
graph and on the values held by the elements.  Any exception out of ``step`` on a
valid network with admissible values is a violation (no next state was given).
"""
import random

from vf import monitors, oracle as O, selfcheck, workloads as W
from vf.env import Inconclusive

PROP = "C01"
WATCHDOG_S = 3000

REQUIRED_FACTS = [
    ("merge", "True"), ("merge", "False"), ("lane", "drop"), ("lane", "gain"), ("lane", "none"),
    ("vsl", "veq"), ("vsl", "limit"),
    ("dst:free.min", "rho"), ("dst:free.min", "crit"), ("dst:cong.max", "free"), ("dst:cong.max", "scen"),
    ("org:ideal:None", "ideal"),
    ("org:main:None.qlim", "speed"), ("org:main:None.qlim", "cap"),
    ("org:main:None.outer", "demand"), ("org:main:None.outer", "lim"),
    ("org:main:None.guard", "lo"), ("org:main:None.guard", "mid"), ("org:main:None.guard", "hi"),
    ("org:main:None.vlim", "ctrl"), ("org:main:None.vlim", "first"),
    ("org:ramp:in.inner", "rate"), ("org:ramp:in.inner", "space"),
    ("org:ramp:in.outer", "demand"), ("org:ramp:in.outer", "cap"),
    ("org:ramp:out.inner", "one"), ("org:ramp:out.inner", "space"),
    ("org:ramp:out.outer", "demand"), ("org:ramp:out.outer", "cap"),
    ("org:simple:limited.outer", "des"), ("org:simple:limited.outer", "demand"),
    ("org:simple:limited.outer", "cap"), ("org:simple:unlimited", "unlimited"),
    ("N", "1"), ("N", "2"), ("N", "3"),
]


def decide(ob, rec):
    case, built = CURRENT.get("case"), CURRENT.get("built")
    if case is not None and built is not None and built.net is CURRENT.get("net_of_last_step"):
        O.apply_declared(ob, case["desc"], built, rec)
        if case["desc"].get("user_engine_laws"):  # the laws of the user-defined engine the driver is stepping with
            ob.desc["user_engine_laws"] = case["desc"]["user_engine_laws"]
    if not O.admissible(ob):
        rec.count("skipped_inadmissible_values")
        return
    ref = O.compare_reference(ob, rec, PROP)
    if not ob.shapes_ok:
        rec.violation(f"{PROP}:{ob.kind}:next state shape differs from state shape", O.witness(ob, None, None, None))
    if ref is not None:
        for f in ref.branches:
            rec.seen("branch_facts", f)
        rec.seen("sig_x_branches", (ob.kind, hash(ref.branches), tuple(sorted(set(ref.node_class.values())))))
        for c in ref.node_class.values():
            rec.seen("node_classes", c)
        rec.seen("engines", ob.kind)


def on_exception(net, kw, exc, rec):
    where = monitors.innermost_repo_frame(exc)
    eng = kw.get("engine")
    rec.violation(
        f"{PROP}:step raised {type(exc).__name__} at {where} on a valid network ({O.engine_kind(eng) if eng is not None else 'current'})",
        {"exception": repr(exc)[:500], "where": where, "case": CURRENT.get("case")},
    )


CURRENT = {}


def run(M, rec, tier, seed, k, n):
    import numpy as np

    np.seterr(all="ignore")
    rng = random.Random(seed * 1000 + k)
    try:
        rec.extra["oracle_selfcheck_max_rel_dev"] = selfcheck.run_selfcheck()
    except Inconclusive as e:
        rec.inconclusive_because(str(e))
        return
    symvals = O.SymVals(random.Random(seed * 1000 + k + 7))
    mon = monitors.StepMonitor(M, rec, symvals, deciders=[decide], on_exception=on_exception).install()

    def on_case(case, built):
        CURRENT["case"] = case
        CURRENT["built"] = built
        CURRENT["net_of_last_step"] = built.net

    W.USER_KINDS["prob"] = 0.12  # user-defined origin / link kinds (README "Extensions") are networks too
    from vf import batched

    # the engine primitives are the equations themselves, also when evaluated for K cases at once
    batched.batched_primitives(M, rec, rng, PROP, 300 if tier == "quick" else 3000)
    try:
        if tier == "quick":
            W.numpy_steps(M, rec, rng, 450, draws=3, opts_prob=0.15, before_case=on_case)
            W.symbolic_steps(M, rec, rng, symvals, 45, points=2, opts_prob=0.15, before_case=on_case)
            W.closed_loop(M, rec, rng, 7, 80, before_case=on_case)
            W.inplace_pairs(M, rec, rng, 40, before_case=on_case)
            W.small_valid_steps(M, rec, rng, 2, before_case=on_case, seed=seed)
            W.symbolic_param_steps(M, rec, rng, symvals, 30, before_case=on_case)
            W.dm_steps(M, rec, rng, symvals, 60, before_case=on_case)
            W.overlapping_steps(M, rec, rng, 40, before_case=on_case)
            W.shared_object_networks(M, rec, rng, 40, before_case=on_case, engine_kinds=("numpy", "numpy", "SX", "MX"), symvals=symvals)
            W.late_registered_ramp_kinds(M, rec, rng, 12, before_case=on_case, engine_kinds=("numpy", "SX", "numpy", "MX"), symvals=symvals)
            W.user_node_rules(M, rec, rng, 36, before_case=on_case, engine_kinds=("numpy", "SX", "numpy", "MX"), symvals=symvals)
            W.user_engine_laws(M, rec, rng, 32, before_case=on_case, symvals=symvals)
        else:
            W.numpy_steps(M, rec, rng, 6000, draws=3, opts_prob=0.15, before_case=on_case)
            W.symbolic_steps(M, rec, rng, symvals, 420, points=3, opts_prob=0.15, before_case=on_case)
            W.closed_loop(M, rec, rng, 14, 260, before_case=on_case)
            W.inplace_pairs(M, rec, rng, 300, before_case=on_case)
            W.small_valid_steps(M, rec, rng, 3, k, n, before_case=on_case, seed=seed)
            # every valid 4-node topology (49 551 digraphs) with the reduced role set (253 151 networks)
            W.small_valid_steps(M, rec, rng, 4, k, n, before_case=on_case, seed=seed + 1, kinds_full=False, only_n=4)
            W.symbolic_param_steps(M, rec, rng, symvals, 150, before_case=on_case)
            W.dm_steps(M, rec, rng, symvals, 500, before_case=on_case)
            W.overlapping_steps(M, rec, rng, 300, before_case=on_case)
            W.shared_object_networks(M, rec, rng, 300, before_case=on_case, engine_kinds=("numpy", "numpy", "SX", "MX"), symvals=symvals)
            W.late_registered_ramp_kinds(M, rec, rng, 60, before_case=on_case, engine_kinds=("numpy", "SX", "numpy", "MX"), symvals=symvals)
            W.user_node_rules(M, rec, rng, 300, before_case=on_case, engine_kinds=("numpy", "SX", "numpy", "MX"), symvals=symvals)
            W.user_engine_laws(M, rec, rng, 300, before_case=on_case, symvals=symvals)
    finally:
        W.USER_KINDS["prob"] = 0.0
        mon.uninstall()
    W.ensembles_vs_single_scenarios(M, rec, rng, PROP, 24 if tier == "quick" else 240)
    if k == 0:
        W.repo_tests(rec, [PROP])


def finish(M, rec, write=True):
    facts = rec.cover.get("branch_facts", set())
    missing = [f for f in REQUIRED_FACTS if repr(f) not in facts]
    if not rec.violations:
        rec.gate(not missing, f"reference branches never active: {missing[:6]}")
        rec.gate(rec.counters.get("ref_comparisons", 0) > 0, "no reference comparison took place")
        for e in ("numpy", "SX", "MX"):
            rec.gate(e in rec.cover.get("engines", set()), f"engine {e} never observed")
        rec.gate(rec.counters.get("monitor_internal_errors", 0) == 0, "monitor internal errors")
    nm = rec.extra.get("exhaustive_small_nmax")
    rec.extra["exhaustive_subspaces"] = [f"every valid (topology, role) assignment on <= {3 if rec.tier == 'thorough' else 2} labelled nodes incl. self-loops"] + (
        ["every valid topology on 4 labelled nodes with the reduced role set (2 origin kinds at sources, ramps at interior 1-out nodes, 2 destination kinds)"] if nm == 4 else [])
    return rec.finish(
        "ref_comparisons",
        ["sig_x_branches"],
        rule="random valid networks (forced shape classes chain/bifurcation/merge/crossing/ramp/"
        "cycles/ring/single-segment/lane drop/lane gain/all-kinds + random digraphs) x value regimes "
        "(interior, boundary, zero, jam, ties, infinite limits) stepped through Network.step with the "
        "NumPy engine and with SX/MX symbols (evaluated through the monitor's own casadi.Function), "
        "plus closed-loop simulations; every next density/speed/queue compared with the scalar "
        "reference.  distinct = distinct (engine, reference branch vector, node-class set) triples",
        assumptions=[
            "scalar reference model (vf/refmodel.py) is the METANET model; self-checked each run "
            "against upstream's recorded 900-step trajectory",
            "merging term applies at a metered/simplified ramp node that also has entering links "
            "(the library's documented rule); lane gain accepts signed term or no term",
            "mainstream-origin log ratio limited to [0.05,1] (the library's documented NaN guard)",
        ],
        write=write,
    )
