"""C04 — function arguments/results follow the network's element order at every level.

Observed on compiled functions:
 (i)   no free symbols; sum of argument sizes == number of independent scalar variables +
       declared parameters; documented names;
 (ii)  level 0 called BY NAME (names are unique in the generated networks): every result
       named "<var>_<element>+" is the reference successor of the argument "<var>_<element>"
       (values pairwise different, so any permutation changes a number);
 (iii) levels 1 and 2 equal level 0 under the documented concatenation (per variable name
       in first-appearance order; single x, u, d, p vectors), positions taken from the
       network's own live enumeration;
 (iv)  two-step closed loop: feeding the results back as arguments equals two reference
       steps.
"""
import math
import random

import casadi as cs
import numpy as np

from vf import compiled as C, compilecases as CC, desc as D, drive, gen as G, refmodel as R, selfcheck, workloads as W
from vf.env import Inconclusive

PROP = "C04"
WATCHDOG_S = 3000


def close(a, b, mag=0.0):
    if math.isnan(a) or math.isnan(b):
        return False
    return a == b or abs(a - b) <= 1e-9 * (1.0 + abs(a) + abs(b) + mag)


def expected_names(case, compact, more_out):
    desc, order = case.desc, case.order
    lay = D.var_layout(desc)
    names = {e["id"]: e["name"] for grp in ("links", "origins", "dests") for e in desc[grp]}
    G3 = ("states", "actions", "disturbances")
    nin, nout = [], []
    fx = set(case.fixed)
    if compact <= 0:
        for grp in G3:
            for eid in order:
                for v, n in lay[eid][grp]:
                    if (eid, v) not in fx:
                        nin.append(f"{v}_{names[eid]}" if (eid, v) not in case.tied else f"u_all_{eid}")
        nin += list(case.parameters)
        for eid in order:
            for v, n in lay[eid]["states"]:
                nout.append(f"{v}_{names[eid]}+")
        if more_out:
            linkset = {l["id"] for l in desc["links"]}
            orgset = {o["id"] for o in desc["origins"]}
            nout += [f"q_{names[e]}" for e in order if e in linkset]
            nout += [f"q_o_{names[e]}" for e in order if e in orgset]
    else:
        seen = {g: [] for g in G3}
        for grp in G3:
            for eid in order:
                for v, n in lay[eid][grp]:
                    if v not in seen[grp] and (eid, v) not in fx:
                        seen[grp].append(v)
        if compact == 1:
            nin = seen["states"] + seen["actions"] + seen["disturbances"]
            nout = [v + "+" for v in seen["states"]]
            if more_out:
                nout += ["q", "q_o"]
        else:
            nin = ["x", "u", "d"]
            nout = ["x+"] + (["q"] if more_out else [])
        if case.parameters:
            nin.append("p")
    return nin, nout


class Own:
    """Successors as the library itself computed them (elements' next_states evaluated by the harness),
    in the shape the comparisons below expect."""

    def __init__(self, nxt):
        self.next = {eid: {k: (v if k in ("rho", "v") else v[0]) for k, v in d.items()} for eid, d in nxt.items()}
        self.mag = {eid: {k: ([abs(x) for x in v] if k in ("rho", "v") else abs(v[0])) for k, v in d.items()} for eid, d in nxt.items()}
        self.vdrop_alt = {}


def expected_sizes(case, compact, more_out):
    desc, order = case.desc, case.order
    lay = D.var_layout(desc)
    G3 = ("states", "actions", "disturbances")
    linkset = {l["id"]: l["N"] for l in desc["links"]}
    orgs = [e for e in order if e in {o["id"] for o in desc["origins"]}]
    links = [e for e in order if e in linkset]
    fx = set(case.fixed)
    if compact <= 0:
        sin = [(1 if (eid, v_) in case.tied else n) for grp in G3 for eid in order for v_, n in lay[eid][grp] if (eid, v_) not in fx] + [1] * len(case.parameters)
        sout = [n for eid in order for _, n in lay[eid]["states"]]
        if more_out:
            sout += [linkset[e] for e in links] + [1] * len(orgs)
        return sin, sout
    by = {g: {} for g in G3}
    for grp in G3:
        for eid in order:
            for v, n in lay[eid][grp]:
                if (eid, v) in fx:
                    continue
                by[grp][v] = by[grp].get(v, 0) + (1 if (eid, v) in case.tied else n)
    nq = sum(linkset[e] for e in links)
    if compact == 1:
        sin = [n for grp in G3 for n in by[grp].values()]
        sout = list(by["states"].values()) + ([nq, len(orgs)] if more_out else [])
    else:
        sin = [sum(by[grp].values()) for grp in G3]
        sout = [sum(by["states"].values())] + ([nq + len(orgs)] if more_out else [])
    if case.parameters:
        sin.append(len(case.parameters))
    return sin, sout


def n_scalars(desc, fixed=(), tied=()):
    lay = D.var_layout(desc)
    return sum((1 if (eid, v_) in tied else n) for eid, L in lay.items() for grp in L.values() for v_, n in grp if (eid, v_) not in fixed)


def one_case(M, rec, rng, g, desc, pars, st, clashing=False):
    cand = CC.candidate_params(desc, pars)
    keys = rng.sample(cand, rng.randint(1, min(4, len(cand)))) if rng.random() < 0.5 else []
    opts = CC.random_opts(rng, 0.2) if rng.random() < 0.3 else {}
    if rng.random() < 0.25:  # each single initial clamp alone (the re-extracted symbols must keep their place)
        opts = rng.choice(({"positive_init_density": True}, {"positive_init_speed": True}, {"positive_init_queue": True},
                           {"positive_init_density": True, "positive_init_queue": True}))
    try:
        _, fixed_from = g.values(desc, allow_inf=False)
        case = CC.CompileCase(M, rng, desc, pars, st, keys, opts, own_symbols=(rng.random() < 0.5 and not clashing),
                              fixed_from=fixed_from, fixed_prob=0.3, scaled_prob=0.3)
        if case.tied:
            rec.count("cases_with_one_symbol_driving_several_limits")
        if case.fixed:
            rec.count("cases_with_variables_supplied_as_numbers")
    except Exception as e:
        rec.count("symbolic_step_failed")
        rec.seen("failed", repr(e)[:120])
        return
    more_out = rng.random() < 0.6
    ctx = {"desc": desc, "pars": pars, "opts": opts, "sym_type": st, "more_out": more_out,
           "symbolic_parameters": [list(k) for k in keys], "live_order": case.order}
    Fs = {}
    failed = {}
    for compact in (0, 1, 2):
        try:
            Fs[compact] = case.compile(compact, more_out)
        except Exception as e:
            failed[compact] = e
    if failed and len(failed) < 3:
        # the same stepped network compiles at one level but not at another: at the failing level an
        # argument is missing, duplicated or left free (the levels are the same function up to concatenation)
        c_ = sorted(failed)[0]
        rec.violation(f"{PROP}:compact={c_}: the function cannot be built ({type(failed[c_]).__name__}) although the same network "
                      f"compiles at level(s) {sorted(Fs)}" + (" [clashing element names]" if clashing else ""),
                      dict(ctx, exception=repr(failed[c_])[:300]))
        return
    if failed and (case.tied or case.scaled or case.fixed):
        # variables handed over as numbers, as expressions of the user's symbols or as one symbol driving a whole
        # vector: the independent symbols are the arguments (none missing, none left free)
        what = "one scalar symbol driving a vector variable" if case.tied else ("expressions of user symbols" if case.scaled else "plain numbers")
        rec.violation(f"{PROP}:the function cannot be built at any level ({type(failed[0]).__name__}) when some variables were supplied as {what}",
                      dict(ctx, exception=repr(failed[0])[:300]))
        return
    if failed:
        rec.count("compile_failed")
        rec.seen("failed", repr(failed[0])[:120])
        return
    lay = D.var_layout(desc)
    names = {e["id"]: e["name"] for grp in ("links", "origins", "dests") for e in desc[grp]}
    # (i) structure
    for compact, F in Fs.items():
        rec.count("structure_checks")
        rec.seen("configs", (st, compact, more_out, bool(keys), bool(opts)))
        if F.get_free():
            rec.violation(f"{PROP}:compact={compact}: compiled function has free symbols", dict(ctx, compact=compact, free=str(F.get_free())))
        tot = sum(F.size1_in(i) * F.size2_in(i) for i in range(F.n_in()))
        if tot != n_scalars(desc, case.fixed, case.tied) + len(case.parameters):
            rec.violation(f"{PROP}:compact={compact}: total argument size differs from the number of independent variables + parameters",
                          dict(ctx, compact=compact, total=tot, expected=n_scalars(desc, case.fixed, case.tied) + len(case.parameters)))
        nin, nout = expected_names(case, compact, more_out)
        # the statement fixes order and content, not the spelling of names: a different spelling is only
        # counted; what must match is the sequence of argument/result SIZES implied by the documented
        # layout (a permutation among equal sizes is caught numerically below)
        if list(F.name_in()) != nin or list(F.name_out()) != nout:
            rec.count("names_differ_from_documented_scheme")
        sizes_in = [F.size1_in(i) * F.size2_in(i) for i in range(F.n_in())]
        sizes_out = [F.size1_out(i) * F.size2_out(i) for i in range(F.n_out())]
        exp_in, exp_out = expected_sizes(case, compact, more_out)
        if sizes_in != exp_in:
            rec.violation(f"{PROP}:compact={compact}: argument sizes/order differ from the documented layout",
                          dict(ctx, compact=compact, names=list(F.name_in()), sizes=sizes_in, expected_sizes=exp_in, expected_names=nin))
        if sizes_out != exp_out:
            rec.violation(f"{PROP}:compact={compact}: result sizes/order differ from the documented layout",
                          dict(ctx, compact=compact, names=list(F.name_out()), sizes=sizes_out, expected_sizes=exp_out, expected_names=nout))
    # numeric points: no init clamp ambiguity (non-negative inputs)
    for _pt in range(2):
        _, vals = g.values(desc, allow_inf=False)
        vals = case.effective(vals)
        if R.is_singular(desc, vals):
            rec.count("skipped_singular")
            continue
        try:
            ref = Own(CC.own_successors(case, vals))
        except Exception as e:
            rec.count("own_evaluation_failed")
            rec.seen("failed", repr(e)[:120])
            continue
        # (ii) level 0 by name
        F0 = Fs[0]
        byname = {}
        for eid, L in lay.items():
            for grp in ("states", "actions", "disturbances"):
                for v, n in L[grp]:
                    if (eid, v) in case.fixed:
                        continue
                    x = vals[eid][v]
                    if (eid, v) in case.tied:
                        byname[f"u_all_{eid}"] = cs.DM([x[0]])
                        continue
                    if (eid, v) in case.scaled:
                        a_, b_ = case.scaled[(eid, v)]
                        x = [(t_ - a_) / b_ for t_ in (x if isinstance(x, list) else [x])]
                    byname[f"{v}_{names[eid]}"] = cs.DM(x if isinstance(x, list) else [x])
        for k_, s_ in case.parameters.items():
            byname[k_] = cs.DM(case.pvalues[k_])
        if len(set(F0.name_in())) == F0.n_in() and set(F0.name_in()) == set(byname):
            try:
                out = F0.call(byname)
            except Exception as e:
                rec.violation(f"{PROP}:compact=0: call by documented names failed ({type(e).__name__})", dict(ctx, exception=repr(e)[:300]))
                return
            rec.count("by_name_calls")
            for eid, d in ref.next.items():
                for v, e_ in d.items():
                    key = f"{v}_{names[eid]}+"
                    if key not in out:
                        rec.violation(f"{PROP}:compact=0: no result named <var>_<element>+ for a state", dict(ctx, missing=key))
                        return
                    got = np.asarray(out[key], dtype=float).ravel().tolist()
                    es = e_ if isinstance(e_, list) else [e_]
                    ms = ref.mag[eid][v]
                    ms = ms if isinstance(ms, list) else [ms]
                    if len(got) != len(es):
                        rec.violation(f"{PROP}:compact=0: result size differs from state size", dict(ctx, name=key))
                        return
                    for i, (x, y, m) in enumerate(zip(got, es, ms)):
                        rec.count("scalars_compared")
                        alt = ref.vdrop_alt.get(eid) if (v == "v" and i == len(es) - 1) else None
                        if not close(x, y, m) and not (alt is not None and close(x, alt, m)):
                            rec.violation(f"{PROP}:compact=0: result '<var>_<element>+' is not the successor of argument '<var>_<element>' (by-name call vs the elements' own next states)",
                                          dict(ctx, vals=vals, name=key, index=i, observed=x, expected=y))
                            return
        else:
            rec.count("by_name_skipped_nonunique_names")
        # (iii) levels 0/1/2 are the same function up to concatenation (positional, live order)
        res = {}
        for compact, F in Fs.items():
            try:
                res[compact] = case.call(F, vals, compact, more_out)
            except Exception as e:
                rec.violation(f"{PROP}:compact={compact}: positional call with the documented layout failed ({type(e).__name__})",
                              dict(ctx, compact=compact, exception=repr(e)[:300]))
                return
        rec.count("level_comparisons")
        for compact in (1, 2):
            for part, nm in ((0, "x+"), (1, "q"), (2, "q_o")):
                a, b = res[0][part], res[compact][part]
                if a is None:
                    continue
                for eid in a:
                    va, vb = a[eid], b.get(eid)
                    items = va.items() if isinstance(va, dict) else [(nm, va)]
                    for v, xs in items:
                        ys = vb[v] if isinstance(vb, dict) else vb
                        xs = xs if isinstance(xs, list) else [xs]
                        ys = ys if isinstance(ys, list) else [ys]
                        for i, (x, y) in enumerate(zip(xs, ys)):
                            rec.count("scalars_compared")
                            if not close(x, y):
                                rec.violation(f"{PROP}:compact={compact}: {nm} is not the documented concatenation of the level-0 results",
                                              dict(ctx, vals=vals, compact=compact, element=eid, var=v, index=i, level0=x, levelc=y))
                                return
        # level 0 positional (live enumeration) vs reference
        for eid, d in ref.next.items():
            for v, e_ in d.items():
                es = e_ if isinstance(e_, list) else [e_]
                got = res[0][0].get(eid, {}).get(v)
                ms = ref.mag[eid][v]
                ms = ms if isinstance(ms, list) else [ms]
                for i, (x, y, m) in enumerate(zip(got or [], es, ms)):
                    rec.count("scalars_compared")
                    alt = ref.vdrop_alt.get(eid) if (v == "v" and i == len(es) - 1) else None
                    if not close(x, y, m) and not (alt is not None and close(x, alt, m)):
                        rec.violation(f"{PROP}:compact=0: i-th state result is not the successor of the i-th state argument (live enumeration order vs the elements' own next states)",
                                      dict(ctx, vals=vals, element=eid, var=v, index=i, observed=x, expected=y))
                        return
        # (iv) two-step closed loop at the most compact level
        try:
            xn1 = res[2][0]
            vals2 = {k: dict(v) for k, v in vals.items()}
            for eid, d in xn1.items():
                for v, xs in d.items():
                    vals2[eid][v] = list(xs) if v in ("rho", "v") else xs[0]
            adm = all(x >= 0 and math.isfinite(x) for d in xn1.values() for xs in d.values() for x in xs)
            if adm and not R.is_singular(desc, vals2):
                ref1 = {k: dict(v) for k, v in vals.items()}
                for eid, d in ref.next.items():
                    for v, e_ in d.items():
                        ref1[eid][v] = list(e_) if isinstance(e_, list) else e_
                ok_alt = True
                if ok_alt:
                    ref2 = Own(CC.own_successors(case, ref1))
                    if True:
                        xn2 = case.call(Fs[2], vals2, 2, more_out)[0]
                        rec.count("two_step_loops")
                        for eid, d in ref2.next.items():
                            for v, e_ in d.items():
                                es = e_ if isinstance(e_, list) else [e_]
                                for i, (x, y) in enumerate(zip(xn2[eid][v], es)):
                                    if not (abs(x - y) <= 1e-6 * (1 + abs(x) + abs(y) + (ref2.mag[eid][v][i] if isinstance(ref2.mag[eid][v], list) else ref2.mag[eid][v]))):
                                        rec.violation(f"{PROP}:compact=2: feeding x+ back as x does not give the successor of the successor",
                                                      dict(ctx, vals=vals, element=eid, var=v, index=i, observed=x, expected=y))
                                        return
        except (R.Singular, R.Inadmissible):
            pass
    if rec.counters.get("level_comparisons", 0) >= 1 and not rec.samples:
        rec.sample({"desc": desc, "sym_type": st, "names_in_level0": list(Fs[0].name_in()), "names_in_level1": list(Fs[1].name_in()),
                    "names_out_level1": list(Fs[1].name_out()), "live_order": case.order})


def collision_network(g, rng):
    """>= 2 elements of every kind; v_ctrl carried by a speed-limited link and a mainstream
    origin; d carried by origins and congested destinations; empty action groups."""
    return g.all_kinds_network()


def run(M, rec, tier, seed, k, n):
    np.seterr(all="ignore")
    rng = random.Random(seed * 1000 + k + 400)
    try:
        rec.extra["oracle_selfcheck_max_rel_dev"] = selfcheck.run_selfcheck()
    except Inconclusive as e:
        rec.inconclusive_because(str(e))
        return
    g = G.NetGen(rng)
    sh = W.shapes_cycle()
    for it in range(90 if tier == "quick" else 1000):
        shape = next(sh)
        if it % 4 == 0:
            desc = collision_network(g, rng)
        elif it % 9 == 5:
            _, desc = g.network(rng.choice(("chain", "ramp", "random")), force=("long",))
            rec.count("long_link_networks")
        else:
            _, desc = g.network(shape)
        if it % 4 != 0 and rng.random() < 0.15:
            # user-defined origin / link kinds (README "Extensions"), e.g. a link that hands its results
            # back in another key order: arguments and results still follow the element's state order
            if G.add_user_kinds(desc, rng):
                rec.count("networks_with_user_defined_element_kinds")
        pars = g.pars()
        rec.seen("net_signatures", D.signature(desc))
        clashing = False
        if it % 4 == 0 and (it // 4) % 2 == 1:
            desc, ncl = G.clash_names(desc, rng)
            clashing = ncl > 0
            rec.count("networks_with_clashing_argument_names", 1 if clashing else 0)
        for st in ("SX", "MX"):
            one_case(M, rec, rng, g, desc, pars, st, clashing)
            if it % 5 == 2:
                extra_state_kind(M, rec, rng, st)
            if it % 20 == 7:
                large_network(M, rec, rng, st)


def extra_state_kind(M, rec, rng, st):
    """A user-defined kind that ADDS a state to a stock kind (a link integrating its total time spent in a
    state `tts`, held after rho and v).  Layout-only oracle built from the live objects, no table of kinds:
    arguments = the elements' variables in enumeration order and in the order each element holds them; results
    = the same elements' own next states, each in the position of its state (grouped / stacked by name at
    levels 1 / 2).  Both sides are evaluated at a random point."""
    from vf import userkinds as UK

    NE, CE = drive.engines(M)
    mk = lambda cls, N, nm, **kw: cls(N, rng.choice((2, 3)), 1.0, 180.0, 33.5, 102.0, 1.867, name=nm, **kw)  # noqa: E731
    n1, n2, n3 = M.Node(name="A"), M.Node(name="B"), M.Node(name="C")
    l1 = mk(UK.TtsLink, rng.choice((2, 3)), "L1")
    l2 = mk(rng.choice((UK.TtsLink, M.Link)), rng.choice((1, 2)), "L2")
    # (the third: a kind whose disturbance carries the name of the links' speed state - groups are per kind of variable)
    org = rng.choice((M.MeteredOnRamp(2000.0, name="O1"), M.MainstreamOrigin(name="O1"), UK.MeasuredSpeedOrigin(name="O1"), UK.MeasuredSpeedOrigin(name="O1")))
    if isinstance(org, UK.MeasuredSpeedOrigin):
        rec.count("extra_state_kind_with_a_name_shared_across_variable_kinds")
    # (now and then the destination is a user kind that owns an ACTION: actions are listed in element order - links,
    # origins, destinations - like everything else)
    dest_ = UK.GatedDestination(name="D1") if rng.random() < 0.4 else M.Destination(name="D1")
    if isinstance(dest_, UK.GatedDestination):
        rec.count("extra_state_kind_with_a_destination_that_owns_an_action")
    net_cls = UK.QueuesFirstNetwork if rng.random() < 0.35 else M.Network  # a subclass listing its elements in another order
    if net_cls is not M.Network:
        rec.count("extra_state_kind_on_a_network_listing_its_elements_in_another_order")
    net = net_cls().add_path((n1, l1, n2, l2, n3), origin=org, destination=dest_)
    eng = CE(st)
    pars = dict(T=10 / 3600, tau=18 / 3600, eta=60.0, kappa=40.0)
    try:
        net.step(engine=eng, **pars)
    except Exception as e:
        rec.violation(f"{PROP}:a network with a user-defined link kind that adds a state cannot be stepped ({type(e).__name__})", {"exception": repr(e)[:300]})
        return
    _layout_check(M, rec, rng, st, net, eng, pars, "a network with a user-defined link kind that adds a state", "extra_state_kind_layout_checks")


def _layout_check(M, rec, rng, st, net, eng, pars, what, counter):
    """Layout-only oracle built from the live objects (see extra_state_kind)."""
    els = list(net.elements)
    S = [(el, nm) for el in els if el.states for nm in el.states]
    U = [(el, nm) for el in els if el.actions for nm in el.actions]
    Dd = [(el, nm) for el in els if el.disturbances for nm in el.disturbances]
    ins = [el.states[nm] for el, nm in S] + [el.actions[nm] for el, nm in U] + [el.disturbances[nm] for el, nm in Dd]
    outs = [el.next_states[nm] for el, nm in S]
    G_ = cs.Function("G", ins, outs)
    vals = [np.array([rng.uniform(5, 90) for _ in range(x.numel())]) for x in ins]
    for i_, (el, nm) in enumerate(S + U + Dd):
        if nm == "r":
            vals[i_] = np.array([rng.random()])
    want0 = [np.asarray(o, dtype=float).ravel() for o in (G_(*vals) if len(outs) > 1 else [G_(*vals)])]

    def grouped(items, arrays):
        names = []
        for _el, nm in items:
            if nm not in names:
                names.append(nm)
        return [np.concatenate([a for (_e, n_), a in zip(items, arrays) if n_ == nm]) for nm in names]

    nS, nU = len(S), len(U)
    for compact in (0, 1, 2):
        rec.count(counter)
        try:
            F = eng.to_function(net, compact=compact, **pars)
        except Exception as e:
            rec.violation(f"{PROP}:compact={compact}: {what} cannot be compiled ({type(e).__name__})",
                          {"exception": repr(e)[:300]})
            continue
        if compact == 0:
            args, want = vals, want0
        else:
            gx, gu, gd = grouped(S, vals[:nS]), grouped(U, vals[nS:nS + nU]), grouped(Dd, vals[nS + nU:])
            wx = grouped(S, want0)
            if compact == 1:
                args, want = gx + gu + gd, wx
            else:
                args = [np.concatenate(g_) if g_ else np.zeros(0) for g_ in (gx, gu, gd)]
                want = [np.concatenate(wx)]
        try:
            got = F(*args)
            got = [np.asarray(o, dtype=float).ravel() for o in (got if isinstance(got, (list, tuple)) else [got])]
        except Exception as e:
            rec.violation(f"{PROP}:compact={compact}: the function of {what} cannot be called with its variables in the documented layout ({type(e).__name__})",
                          {"exception": repr(e)[:300], "argument_sizes": [int(np.size(a)) for a in args]})
            continue
        ok = len(got) == len(want) and all(g_.shape == w_.shape and np.allclose(g_, w_, rtol=1e-9, atol=1e-9) for g_, w_ in zip(got, want))
        if not ok:
            rec.violation(f"{PROP}:compact={compact}: {what}: results are not the successors of the state arguments in the same positions",
                          {"sym_type": st, "states_in_order": [f"{nm}_{el.name}" for el, nm in S], "result_names": list(F.name_out())})


def large_network(M, rec, rng, st):
    """A corridor of more than 64 links (ordinary for METANET users): at every level position k of a per-name group is the
    k-th element that owns a variable of that name, however many there are."""
    NE, CE = drive.engines(M)
    n_links = rng.choice((66, 70, 97, 130))
    nodes = [M.Node(name=f"N{i}") for i in range(n_links + 1)]
    links = [M.Link(rng.choice((1, 1, 1, 2)), rng.choice((2, 3)), 1.0, 180.0, 33.5, 102.0, 1.867, name=f"L{i}") for i in range(n_links)]
    path = [nodes[0]]
    for i in range(n_links):
        path += [links[i], nodes[i + 1]]
    net = M.Network().add_path(tuple(path), origin=M.MainstreamOrigin(name="O0"), destination=M.Destination(name="D0"))
    for i in range(5, n_links, 7):  # on-ramps along the corridor (more than a handful of queues as well)
        net.add_origin(M.MeteredOnRamp(1500.0, name=f"R{i}"), nodes[i])
    eng = CE(st)
    pars = dict(T=10 / 3600, tau=18 / 3600, eta=60.0, kappa=40.0)
    try:
        net.step(engine=eng, **pars)
    except Exception as e:
        rec.violation(f"{PROP}:a corridor of {n_links} links cannot be stepped ({type(e).__name__})", {"exception": repr(e)[:300]})
        return
    rec.count("large_networks")
    _layout_check(M, rec, rng, st, net, eng, pars, "a corridor of more than 64 links", "large_network_layout_checks")


def finish(M, rec, write=True):
    if not rec.violations:
        cf = rec.cover.get("configs", set())
        for st in ("SX", "MX"):
            for c in (0, 1, 2):
                rec.gate(any(s.startswith(f"('{st}', {c},") for s in cf), f"{st}/compact={c} never checked")
        rec.gate(rec.counters.get("by_name_calls", 0) > 0, "level-0 by-name route never exercised")
        rec.gate(rec.counters.get("two_step_loops", 0) > 0, "two-step closed loop never exercised")
        rec.gate(rec.counters.get("networks_with_clashing_argument_names", 0) > 0, "no network with clashing argument names")
        rec.gate(rec.counters.get("symbolic_step_failed", 0) + rec.counters.get("compile_failed", 0)
                 <= 0.02 * max(1, rec.counters.get("structure_checks", 0)), "too many cases failed to compile (see C07)")
    return rec.finish(
        ["structure_checks", "by_name_calls", "level_comparisons", "two_step_loops"],
        ["configs", "net_signatures"],
        rule="random valid networks (every fourth: all element kinds, colliding variable names v_ctrl/d across kinds) with pairwise "
        "different values; SX and MX; with/without symbolic parameters, flow outputs and positivity options; checks (i) structure and "
        "documented names, (ii) level-0 by-name results vs scalar reference, (iii) level 1/2 == level 0 under documented concatenation "
        "and positional level 0 vs reference using the network's live enumeration, (iv) two-step feed-back; distinct = configurations "
        "+ network signatures",
        assumptions=["scalar reference model (self-checked each run)"],
        write=write,
    )
