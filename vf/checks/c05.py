"""C05 — extra flow outputs are the flows the state update actually used.

On ``to_function(more_out=True)`` results: every reported link flow equals density x speed
x lanes of the corresponding *input* segment; every reported origin flow satisfies
w+ = w + T (d - q_o) and the first-segment density balance of the link it feeds (ideal
origins: q_o = flow of the first segment).  Inputs are non-negative so the optional
initial clamp is the identity.
"""
import math
import random

import numpy as np

from vf import compilecases as CC, desc as D, gen as G, refmodel as R, workloads as W

PROP = "C05"
WATCHDOG_S = 3000


def close(a, b, mag):
    if math.isnan(a) or math.isnan(b):
        return False
    return a == b or abs(a - b) <= 1e-8 * (1.0 + mag)


def fixed_flow_origin(M):
    """A user-defined origin kind (README, 'Extensions': the blocks are meant to be sub-classed): no queue,
    it feeds a prescribed boundary flow through the public `get_flow` hook."""

    class FixedFlowOrigin(M.Origin):
        def __init__(self, flow, name=None):
            super().__init__(name)
            self.flow = flow

        def get_flow(self, net, engine=None, **_):
            return self.flow

    return FixedFlowOrigin


def one(M, rec, rng, g, desc, pars, st, ops=None, regime=None, allow_custom=True):
    cand = CC.candidate_params(desc, pars)
    custom = {}
    if allow_custom and rng.random() < 0.3 and not any(o.get("user") or o.get("user_cap_flow") is not None for o in desc["origins"]):
        cls = fixed_flow_origin(M)
        for o in desc["origins"]:
            if o["kind"] == "ideal":
                custom[o["id"]] = cls(round(rng.uniform(200.0, 3000.0), 1), name=o["name"])
        if custom:
            rec.count("cases_with_user_defined_origin_kind")
    mode = rng.random()
    keys = []
    if mode < 0.35:
        keys = [("#", "T")]
    elif mode < 0.7:
        keys = rng.sample(cand, rng.randint(1, min(5, len(cand))))
    # next-state clamps would break the w+/rho+ identities: only initial options
    opts = {o: True for o in ("positive_init_speed", "positive_init_density", "positive_init_queue") if rng.random() < 0.2}
    T2 = None
    if rng.random() < 0.25 and not any(k_ == ("#", "T") for k_ in keys):
        T2 = rng.choice([t for t in (5.0, 7.5, 10.0, 15.0, 20.0) if abs(t / 3600.0 - pars["T"]) > 1e-9]) / 3600.0
    try:
        case = CC.CompileCase(M, rng, desc, pars, st, keys, opts, ops=ops, own_symbols=(rng.random() < 0.5), reuse=custom, restep_T=T2)
        if T2 is not None:
            pars = dict(pars, T=T2)  # the identities below are those of the LAST step
            rec.count("cases_stepped_again_with_another_sampling_time")
    except Exception as e:
        rec.count("symbolic_step_failed")
        rec.seen("failed", repr(e)[:100])
        return
    ins, outs, org, dst = R.topology(desc)
    T = pars["T"]
    for compact in (0, 1, 2):
        try:
            F = case.compile(compact, True)
        except Exception as e:
            rec.count("compile_failed")
            rec.seen("failed", repr(e)[:100])
            continue
        for _pt in range(2):
            _, vals = g.values(desc, regime, allow_inf=False) if regime else g.values(desc, allow_inf=False)
            if R.is_singular(desc, vals):
                rec.count("skipped_singular")
                continue
            ctx = {"desc": desc, "pars": pars, "sym_type": st, "compact": compact, "vals": vals,
                   "symbolic_parameters": [list(k) for k in keys], "opts": opts}
            try:
                xn, q, qo = case.call(F, vals, compact, True)
            except Exception as e:
                rec.violation(f"{PROP}:compact={compact}: function with flow outputs cannot be evaluated with the documented layout ({type(e).__name__})",
                              dict(ctx, exception=repr(e)[:300]))
                break
            rec.count("function_evaluations")
            rec.seen("configs", (st, compact, tuple(sorted(k[1] for k in keys if k[0] == "#")), bool(keys)))
            if any(not math.isfinite(x) for d in xn.values() for xs in d.values() for x in xs):
                rec.count("skipped_nonfinite")
                continue
            for l in desc["links"]:
                lid = l["id"]
                for i in range(l["N"]):
                    exp = vals[lid]["rho"][i] * vals[lid]["v"][i] * l["lam"]
                    rec.count("link_flow_checks")
                    if not close(q[lid][i], exp, abs(exp)):
                        rec.violation(f"{PROP}:compact={compact}: reported link flow != density x speed x lanes of the input segment",
                                      dict(ctx, link=lid, segment=i, reported=q[lid][i], expected=exp))
                        return
            for o in desc["origins"]:
                oid = o["id"]
                lk = outs[o["node"]][0]
                rec.seen("origin_kinds", (o["kind"], o["eq"], compact))
                if oid in custom:
                    # the reported flow is the prescribed one, and it is the one that entered the first segment
                    flow = custom[oid].flow
                    kk = lk["lam"] * lk["L"] / T
                    used = (xn[lk["id"]]["rho"][0] - vals[lk["id"]]["rho"][0]) * kk + q[lk["id"]][0]
                    rec.count("origin_flow_checks")
                    rec.seen("origin_kinds", ("user-defined", None, compact))
                    if not close(qo[oid], flow, abs(flow)) or not close(used, qo[oid], abs(flow) + abs(q[lk["id"]][0]) + abs(xn[lk["id"]]["rho"][0]) * kk):
                        rec.violation(f"{PROP}:compact={compact}: reported flow of a user-defined (queue-less, prescribed-flow) origin is not the flow used in the density update of its link",
                                      dict(ctx, origin=oid, reported=qo[oid], prescribed=flow, inflow_inferred_from_the_density_update=used))
                        return
                    continue
                if o["kind"] == "ideal":
                    exp = vals[lk["id"]]["rho"][0] * vals[lk["id"]]["v"][0] * lk["lam"]
                    if o.get("user_q") is not None:
                        exp = o["user_q"]  # user-defined boundary origin prescribing its flow
                    rec.count("origin_flow_checks")
                    if not close(qo[oid], exp, abs(exp)):
                        rec.violation(f"{PROP}:compact={compact}: reported flow of an ideal origin != flow of the first segment of its link",
                                      dict(ctx, origin=oid, reported=qo[oid], expected=exp))
                        return
                else:
                    w, dmd = vals[oid]["w"], vals[oid]["d"]
                    exp = w + T * (dmd - qo[oid])
                    rec.count("origin_flow_checks")
                    if not close(xn[oid]["w"][0], exp, abs(w) + T * (abs(dmd) + abs(qo[oid]))):
                        rec.violation(f"{PROP}:compact={compact}: next queue != queue + T (demand - reported origin flow) [{o['kind']},{o['eq']}]",
                                      dict(ctx, origin=oid, w_next=xn[oid]["w"][0], expected=exp, reported_flow=qo[oid]))
                        return
                # the reported flow is the one that entered the density balance of the fed link: change
                # ONLY this origin's own demand/queue/control; whatever the node does with the entering
                # links cancels in the difference:  d(rho+_1) lam L / T  ==  d(reported q_o)
                if o["kind"] == "ideal":
                    continue
                v2 = {k_: {n_: (list(x_) if isinstance(x_, list) else x_) for n_, x_ in d_.items()} for k_, d_ in vals.items()}
                v2[oid]["d"] = vals[oid]["d"] * 0.5 + 37.0
                v2[oid]["w"] = vals[oid]["w"] + 3.0
                if "r" in v2[oid]:
                    v2[oid]["r"] = 0.35 if vals[oid]["r"] > 0.6 else 0.9
                if "q" in v2[oid]:
                    v2[oid]["q"] = vals[oid]["q"] * 0.5 + 11.0
                if "v_ctrl" in v2[oid] and o["kind"] == "main":
                    v2[oid]["v_ctrl"] = 25.0 if vals[oid]["v_ctrl"] > 40 else 90.0
                try:
                    xn2, q2, qo2 = case.call(F, v2, compact, True)
                except Exception:
                    continue
                kk = lk["lam"] * lk["L"] / T
                d_in = (xn2[lk["id"]]["rho"][0] - xn[lk["id"]]["rho"][0]) * kk
                d_qo = qo2[oid] - qo[oid]
                mag = (abs(xn2[lk["id"]]["rho"][0]) + abs(xn[lk["id"]]["rho"][0])) * kk + abs(qo2[oid]) + abs(qo[oid])
                rec.count("density_balance_checks")
                if abs(d_qo) > 1e-6 * (1 + mag):
                    rec.count("density_balance_checks_with_flow_change")
                if not close(d_in, d_qo, mag):
                    rec.violation(f"{PROP}:compact={compact}: reported origin flow is not the one used in the density update of the fed link [{o['kind']},{o['eq']}]",
                                  dict(ctx, origin=oid, change_of_inferred_inflow=d_in, change_of_reported_flow=d_qo, second_point=v2[oid]))
                    return
            if rec.counters["function_evaluations"] == 4:
                rec.sample({"desc": desc, "vals": vals, "compact": compact, "q": q, "q_o": qo})


def long_corridor_with_a_late_feeder(M, rec, rng, g, st):
    """Scripted in every run: a corridor of 90 links whose segment counts come from a down-cast table (numpy.uint8 / int8), and
    a feeder road with an ideal origin joining half-way (its link is the last one in the network, several hundred segments
    down the list): every reported flow is still the one of ITS link / origin."""
    n_links = 90
    dt = rng.choice(("uint8", "int8", "uint8"))

    def lk(i, up, dn, N):
        return {"id": f"L{i}", "name": f"L{i}", "up": up, "down": dn, "N": N, "lam": 2, "L": 1.0, "rho_max": 180.0, "rho_crit": 33.5, "v_free": 102.0, "a": 1.867,
                "beta": 1.0, "vsl": None, "alpha": None, "N_dtype": dt}

    nodes = [f"n{i}" for i in range(n_links + 1)] + ["f0"]
    links = [lk(i, f"n{i}", f"n{i + 1}", 3) for i in range(n_links)] + [lk(n_links, "f0", f"n{n_links // 2}", 2)]
    desc = {"nodes": nodes, "links": links,
            "origins": [{"id": "O0", "name": "O0", "node": "n0", "kind": "main", "C": None, "eq": None},
                        {"id": "O1", "name": "O1", "node": "f0", "kind": "ideal", "C": None, "eq": None}],
            "dests": [{"id": "D0", "name": "D0", "node": f"n{n_links}", "kind": "free"}]}
    rec.count("long_corridors_with_small_integer_segment_counts")
    one(M, rec, rng, g, desc, g.pars(), st, ops=D.default_ops(desc), regime="interior", allow_custom=False)  # (built in the order of the table: the feeder comes last)


def run(M, rec, tier, seed, k, n):
    np.seterr(all="ignore")
    rng = random.Random(seed * 1000 + k + 500)
    g = G.NetGen(rng)
    sh = W.shapes_cycle()
    for it in range(110 if tier == "quick" else 800):
        shape = next(sh)
        desc = g.all_kinds_network() if it % 4 == 0 else g.network(shape)[1]
        if rng.random() < 0.35 and G.add_user_kinds(desc, rng, p_origin=0.8, p_link=0.0):
            rec.count("networks_with_user_defined_origin_kinds")
        pars = g.pars()
        for st in ("SX", "MX"):
            one(M, rec, rng, g, desc, pars, st)
    for st in ("SX", "MX"):
        long_corridor_with_a_late_feeder(M, rec, rng, g, st)


def finish(M, rec, write=True):
    if not rec.violations:
        ok = rec.cover.get("origin_kinds", set())
        for kd in ("ideal", "main", "ramp", "simple"):
            for c in (0, 1, 2):
                rec.gate(any(s.startswith(f"('{kd}',") and s.endswith(f", {c})") for s in ok), f"origin kind {kd} never seen at compact={c}")
        rec.gate(any("('T',)" in s for s in rec.cover.get("configs", set())), "symbolic T never passed through parameters")
        rec.gate(rec.counters.get("density_balance_checks_with_flow_change", 0) > 0, "no origin whose flow changed between the paired points")
        rec.gate(rec.counters.get("symbolic_step_failed", 0) + rec.counters.get("compile_failed", 0)
                 <= 0.02 * max(1, rec.counters.get("function_evaluations", 0)), "too many cases failed to compile (see C07)")
    return rec.finish(
        ["link_flow_checks", "origin_flow_checks", "density_balance_checks"],
        ["configs", "origin_kinds"],
        rule="random valid networks (every fourth with all origin kinds and variants) compiled with more_out=True at compact 0/1/2, SX and "
        "MX, with numeric T, symbolic T declared as parameter, or other symbolic parameters; two admissible points each; identities of "
        "the module docstring; distinct = configurations + (origin kind, variant, compact) triples",
        write=write,
    )
