"""C13 — the selected engine is the default; an explicit engine is always honoured.

History + executable model of the selection (use(name) / use(instance) / use(unknown) /
get_current_engine / step with and without explicit engine), and **spy engines**: the
currently selected engine is a recording proxy around a real engine of another kind; with
an explicit engine passed to ``step`` the spy must record nothing and every produced value
must have the explicit engine's type; with no explicit engine the spy must have produced
everything (results equal to an explicit run); stepping never changes the selection.
"""
import random

import casadi as cs
import numpy as np

from vf import desc as D, drive, gen as G, workloads as W

PROP = "C13"
WATCHDOG_S = 3000


def make_spy(M, inner, log):
    """An EngineBase subclass instance that forwards to `inner` and logs every use."""
    from sym_metanet.engines.core import EngineBase

    def sub(group):
        real = getattr(inner, group)

        class Proxy:
            pass

        import inspect

        for name in dir(real):
            if name.startswith("_"):
                continue
            f = getattr(real, name)
            if callable(f):
                def mk(f=f, name=name):
                    def g(*a, **k):
                        log.append(f"{group}.{name}")
                        return f(*a, **k)
                    return staticmethod(g)
                setattr(Proxy, name, mk())
        return Proxy

    class Spy(EngineBase):
        nodes = property(lambda self: self._n)
        links = property(lambda self: self._l)
        origins = property(lambda self: self._o)
        destinations = property(lambda self: self._d)

        def __init__(self):
            super().__init__()
            self._n, self._l, self._o, self._d = sub("nodes"), sub("links"), sub("origins"), sub("destinations")
            self.inner = inner

        def var(self, *a, **k):
            log.append("var")
            return inner.var(*a, **k)

        def vcat(self, *a):
            log.append("vcat")
            return inner.vcat(*a)

        def max(self, a, b):
            log.append("max")
            return inner.max(a, b)

        def to_function(self, *a, **k):
            log.append("to_function")
            return inner.to_function(*a, **k)

    return Spy()


def type_of(kind):
    return {"numpy": (np.ndarray, np.generic, float), "SX": (cs.SX,), "MX": (cs.MX,)}[kind]


def mk_engine(M, kind):
    NE, CE = drive.engines(M)
    return NE(var_type="rand") if kind == "numpy" else CE(kind)


WORKER = {"pool": None}


def spy_runs(M, rec, rng, g, n_nets):
    from vf import refmodel as R_
    from concurrent.futures import ThreadPoolExecutor

    if WORKER["pool"] is None:
        WORKER["pool"] = ThreadPoolExecutor(max_workers=1)
        WORKER["pool"].submit(lambda: M.engines.get_current_engine()).result()
    import sym_metanet
    from sym_metanet import engines as E

    kinds = ("numpy", "SX", "MX")
    sh = W.shapes_cycle()
    for it in range(n_nets):
        shape = next(sh)
        desc = g.all_kinds_network() if it % 3 == 0 else g.network(shape)[1]
        pars = g.pars(delta=True, phi=True)
        kw = drive.step_pars(pars)
        built = D.build(M, desc, D.random_ops(desc, rng))
        lay = D.var_layout(desc)
        for sel in kinds:
            for exp in kinds:
                if sel == exp:
                    continue
                log = []
                spy = make_spy(M, mk_engine(M, sel), log)
                E.use(spy)
                opts = {o: True for o in ("positive_init_speed", "positive_init_density", "positive_init_queue",
                                          "positive_next_speed", "positive_next_density", "positive_next_queue") if rng.random() < 0.4}
                explicit = mk_engine(M, exp)
                ctx = {"desc": desc, "selected": sel, "explicit": exp, "opts": opts}
                # a probe looks at the selection WHILE the explicit step is running (what another thread would
                # see): an (empty) init_conditions mapping whose .get() is consulted once per element
                seen_mid = []

                class Probe(dict):
                    def get(self, key, default=None):
                        seen_mid.append(E.get_current_engine() is spy and sym_metanet.engine is spy)
                        return super().get(key, default)

                try:
                    built.net.step(init_conditions=Probe(), engine=explicit, **opts, **kw)
                    rec.count("selection_reads_during_an_explicit_step", len(seen_mid))
                    if seen_mid and not all(seen_mid):
                        rec.violation(f"{PROP}:the selection is not the selected engine while a step with an explicit engine is running", ctx)
                except Exception as e:
                    rec.violation(f"{PROP}:step(engine={exp}) with {sel} selected raised {type(e).__name__}",
                                  dict(ctx, exception=repr(e)[:300], spy_log=sorted(set(log))))
                    continue
                rec.count("explicit_runs")
                rec.seen("pairs", (sel, exp))
                if log:
                    rec.violation(f"{PROP}:explicit engine not honoured: the selected engine computed {sorted(set(log))[0].split('.')[0]} quantities",
                                  dict(ctx, spy_log=sorted(set(log))))
                if E.get_current_engine() is not spy:
                    rec.violation(f"{PROP}:stepping with an explicit engine changed the selection", ctx)
                    E.use(spy)
                # a step that FAILS (a model parameter forgotten / a wrong-length state) must leave it too
                bad_kw = {k_: v_ for k_, v_ in kw.items() if k_ != rng.choice(("tau", "kappa", "T"))}
                try:
                    built.net.step(engine=mk_engine(M, exp), **bad_kw)
                    rec.count("failing_steps_that_did_not_fail")
                except Exception:
                    rec.count("failing_steps")
                if E.get_current_engine() is not spy or sym_metanet.engine is not spy:
                    rec.violation(f"{PROP}:a step with an explicit engine that raised left another engine selected",
                                  dict(ctx, now=repr(E.get_current_engine())))
                    E.use(spy)
                # every produced value has the explicit engine's type
                for eid, L in lay.items():
                    el = built.el(eid)
                    for grp in ("states", "actions", "disturbances"):
                        for name, n_ in L[grp]:
                            rec.count("type_checks")
                            v = getattr(el, grp)[name]
                            if not isinstance(v, type_of(exp)):
                                rec.violation(f"{PROP}:a variable was created by another engine than the explicit one ({grp})",
                                              dict(ctx, element=eid, var=name, type=type(v).__name__))
                    for name, n_ in L["states"]:
                        rec.count("type_checks")
                        v = el.next_states[name]
                        if not isinstance(v, type_of(exp)):
                            rec.violation(f"{PROP}:a next state has another engine's type than the explicit one",
                                          dict(ctx, element=eid, var=name, type=type(v).__name__))
            # no explicit engine: the selected one (spy) must be used for everything
            log = []
            spy = make_spy(M, mk_engine(M, sel), log)
            E.use(spy)
            in_worker = rng.random() < 0.35  # the step is made by a long-lived worker thread that saw other selections before
            try:
                if in_worker:
                    WORKER["pool"].submit(lambda: built.net.step(**kw)).result()
                    rec.count("default_runs_in_a_worker_thread")
                else:
                    built.net.step(**kw)
            except Exception as e:
                rec.violation(f"{PROP}:step() with {sel} selected raised {type(e).__name__}" + (" [step made in a worker thread]" if in_worker else ""),
                              {"desc": desc, "exception": repr(e)[:300]})
                continue
            rec.count("default_runs")
            used = set(x.split(".")[0] for x in log)
            need = {"var", "links"}
            if not need <= used:
                rec.violation(f"{PROP}:step() without engine did not use the selected engine", {"desc": desc, "selected": sel, "spy_log": sorted(set(log))})
            # every law the network's elements need is asked of the engine (a user engine may bring its own queue update,
            # destination law, ...): the primitives that must have been called, from the description alone
            ins_, outs_, org_, dst_ = R_.topology(desc)
            must = {"links.get_flow", "links.step_density", "links.step_speed"}
            must |= {"links.controlled_Veq" if l_.get("vsl") is not None else "links.Veq" for l_ in desc["links"]}
            for o_ in desc["origins"]:
                if o_["kind"] != "ideal" and not o_.get("user"):
                    must |= {"origins.step_queue", {"main": "origins.get_mainstream_flow", "ramp": "origins.get_ramp_flow", "simple": "origins.get_simplifiedramp_flow"}[o_["kind"]]}
            for d_ in desc["dests"]:
                must.add("destinations.get_congested_downstream_density" if d_["kind"] == "cong" else "destinations.get_congestion_free_downstream_density")
            for n_ in desc["nodes"]:
                if len(ins_[n_]) >= 2 and outs_[n_]:
                    must |= {"nodes.get_upstream_speed", "nodes.get_upstream_flow"}
                if len(ins_[n_]) == 1 and len(outs_[n_]) >= 2:
                    must.add("nodes.get_upstream_flow")
                if ins_[n_] and len(outs_[n_]) >= 2:
                    must.add("nodes.get_downstream_density")
            rec.count("primitive_coverage_checks")
            missing = sorted(must - set(log))
            if missing and not any(o_.get("user") or o_.get("user_cap_flow") is not None for o_ in desc["origins"]) and not any(l_.get("user_cap") is not None for l_ in desc["links"]):
                rec.violation(f"{PROP}:a law the network needs was not asked of the engine in use: {missing[0]} (an engine bringing its own would be by-passed)",
                              {"desc": desc, "selected": sel, "never_called": missing})
            for eid, L in lay.items():
                el = built.el(eid)
                for name, n_ in L["states"]:
                    rec.count("type_checks")
                    if not isinstance(el.next_states[name], type_of(sel)):
                        rec.violation(f"{PROP}:step() without engine produced values of another engine than the selected one",
                                      {"desc": desc, "selected": sel, "element": eid, "type": type(el.next_states[name]).__name__})
            if E.get_current_engine() is not spy or sym_metanet.engine is not spy:
                rec.violation(f"{PROP}:stepping changed the selection", {"desc": desc, "selected": sel})
        if it == 0:
            rec.sample({"desc": desc, "pairs": "all ordered pairs of (selected, explicit) in numpy/SX/MX"})


def fill_value_engines(M, rec, rng, g, n_nets):
    """NumPy engines configured with a value (`var_type=<number>`: variables not supplied are filled with it).
    Several such engines alive at once, one of them selected, an older one passed explicitly: every variable
    the step creates carries the explicit engine's value, and the default one the selected engine's."""
    from sym_metanet import engines as E

    NE, CE = drive.engines(M)
    sh = W.shapes_cycle()
    for it in range(n_nets):
        desc = g.all_kinds_network() if it % 3 == 0 else g.network(next(sh))[1]
        built = D.build(M, desc, D.random_ops(desc, rng))
        kw = drive.step_pars(g.pars())
        a, b, c = rng.sample((0.25, 0.5, 1.0, 2.0, 7.5, 20.0), 3)
        explicit = NE(var_type=a)
        selected = E.use("numpy", var_type=b) if rng.random() < 0.5 else E.use(NE(var_type=b))
        later = NE(var_type=c)  # configured after both, never used
        for who, eng, val in (("explicit", explicit, a), ("selected", None, b), ("explicit", explicit, a)):
            try:
                if eng is None:
                    built.net.step(**kw)
                else:
                    built.net.step(engine=eng, **kw)
            except Exception as e:
                rec.violation(f"{PROP}:fill-value engines: step with the {who} engine raised {type(e).__name__}", {"exception": repr(e)[:300]})
                continue
            rec.count("fill_value_runs")
            for el in built.elements.values():
                for grp in (el.states, el.actions, el.disturbances):
                    for nm, x in (grp or {}).items():
                        rec.count("fill_value_checks")
                        if not np.all(np.asarray(x, dtype=float) == val):
                            rec.violation(f"{PROP}:fill-value engines: a variable created during a step with the {who} engine does not carry that engine's value",
                                          {"desc": desc, "element": el.name, "variable": nm, "value": np.asarray(x, dtype=float).ravel().tolist()[:4],
                                           "explicit_value": a, "selected_value": b, "value_of_an_engine_configured_later": c})
                            break
        # the live explicit engine is re-configured through its documented setter
        d_ = rng.choice((3.0, 0.125, 11.0))
        explicit.var_type = d_
        try:
            built.net.step(engine=explicit, **kw)
            rec.count("fill_value_runs")
            for el in built.elements.values():
                for grp in (el.states, el.actions, el.disturbances):
                    for nm, x in (grp or {}).items():
                        rec.count("fill_value_checks")
                        if not np.all(np.asarray(x, dtype=float) == d_):
                            rec.violation(f"{PROP}:fill-value engines: after `engine.var_type = value` a variable created by that engine does not carry the new value",
                                          {"desc": desc, "element": el.name, "variable": nm, "value": np.asarray(x, dtype=float).ravel().tolist()[:4], "new_value": d_, "old_value": a})
                            break
        except Exception as e:
            rec.violation(f"{PROP}:fill-value engines: step after re-configuring the engine raised {type(e).__name__}", {"exception": repr(e)[:300]})
        if E.get_current_engine() is not selected:
            rec.violation(f"{PROP}:fill-value engines: the selection changed", {"desc": desc})


def user_engine_runs(M, rec, rng, g, n_nets):
    """A user-defined engine (README: engines are written by implementing EngineBase; here derived from the
    shipped ones) with its OWN node model: turn rates are absolute fractions, q = beta * Q (what is left
    leaves by an unmodelled exit).  Passed explicitly, or selected: every split flow must come from it."""
    import sym_metanet
    from sym_metanet import engines as E
    from sym_metanet.engines import casadi as EC, numpy as EN
    from vf import oracle as O, refmodel as R

    class NodesNP(EN.NodesEngine):
        @staticmethod
        def get_upstream_flow(q_lasts, beta, betas, q_orig=None):
            Q = np.sum(q_lasts, 0)
            if q_orig is not None:
                Q = Q + q_orig
            return beta * Q

    class UserNP(EN.Engine):
        @property
        def nodes(self):
            return NodesNP

    class NodesCS(EC.NodesEngine):
        @staticmethod
        def get_upstream_flow(q_lasts, beta, betas, q_orig=None):
            Q = cs.sum1(q_lasts)
            if q_orig is not None:
                Q = Q + q_orig
            return beta * Q

    class UserCS(EC.Engine):
        @property
        def nodes(self):
            return NodesCS

    sh = W.shapes_cycle()
    symvals = O.SymVals(random.Random(3))
    for it in range(n_nets):
        shape = ("bifurcation", "crossing", "random", next(sh))[it % 4]
        desc = g.network(shape)[1]
        built = D.build(M, desc, D.random_ops(desc, rng))
        pars = g.pars()
        kw = drive.step_pars(pars)
        _, vals = g.values(desc, allow_inf=False)
        kind = ("numpy", "numpy", "SX", "MX")[it % 4]
        # an engine object may well be falsy (one that counts what it created and has created nothing yet)
        falsy = (None, "__len__", "__bool__")[(it // 4) % 3]
        cls_ = UserNP if kind == "numpy" else UserCS
        if falsy == "__len__":
            cls_ = type("Counting" + cls_.__name__, (cls_,), {"__len__": lambda self: 0})
        elif falsy == "__bool__":
            cls_ = type("Quiet" + cls_.__name__, (cls_,), {"__bool__": lambda self: False})
        eng = cls_() if kind == "numpy" else cls_(kind)
        how = rng.choice(("explicit", "selected")) if falsy is None else ("explicit", "explicit", "selected")[(it // 12) % 3]
        E.use(eng if how == "selected" else rng.choice((EN.Engine(), EC.Engine("SX"))))
        try:
            if kind == "numpy":
                ic = drive.np_init(built, vals, "vec1")
            else:
                symvals.clear()
                ic, _s = drive.sym_init(M, built, kind, symvals, vals)
            step_kw = dict(init_conditions=ic, **kw)
            if how == "explicit":
                step_kw["engine"] = eng
            built.net.step(**step_kw)
            ob = O.observe(M, built.net, eng, dict(step_kw, engine=eng), symvals)
        except Exception as e:
            rec.violation(f"{PROP}:user-defined engine ({kind}, {how}): step raised {type(e).__name__}", {"exception": repr(e)[:300]})
            continue
        if not O.admissible(ob):
            continue
        ob.desc["split_rule"] = "absolute"
        try:
            ref = R.ref_step(ob.desc, ob.vals, ob.pars, ob.opts)
        except (R.Singular, R.Inadmissible):
            continue
        rec.count("user_engine_runs")
        rec.seen("user_engine_modes", (kind, how, "falsy" if falsy else "truthy"))
        for eid, d in ref.next.items():
            for nm, v in d.items():
                vs = v if isinstance(v, list) else [v]
                ws = ob.nxt[eid][nm] if isinstance(ob.nxt[eid][nm], list) else [ob.nxt[eid][nm]]
                ms = ref.mag[eid][nm] if isinstance(ref.mag[eid][nm], list) else [ref.mag[eid][nm]] * len(vs)
                for i_, (a_, b_, m_) in enumerate(zip(vs, ws, ms)):
                    rec.count("user_engine_scalars_compared")
                    if not O.close(a_, b_, m_, rel=1e-9):
                        rec.violation(f"{PROP}:a quantity was not computed by the ({how}) user-defined engine: {nm}+ follows the shipped node model, not the engine's own",
                                      {"desc": desc, "engine": kind, "how": how, "element": eid, "index": i_, "observed": b_, "expected_with_the_engines_own_rule": a_})
                        break


def reconfigured_link_model(M, rec, rng, reps):
    """A user-defined engine whose link model is re-configured in place between two steps (`engine.link_model = ...`, its
    `links` property returns it - "dry road" / "wet road"): each step is computed with the model the engine holds THEN,
    passed explicitly or selected."""
    from sym_metanet import engines as E
    from sym_metanet.engines import numpy as EN

    class WetLinks(EN.LinksEngine):
        @staticmethod
        def Veq(rho, v_free, rho_crit, a):
            return 0.8 * v_free * np.exp((-1 / a) * np.power(rho / rho_crit, a))

    class WeatherEngine(EN.Engine):
        def __init__(self):
            super().__init__()
            self.link_model = EN.LinksEngine

        @property
        def links(self):
            return self.link_model

    saved = E.get_current_engine()
    T, tau, eta, kappa = 10 / 3600, 18 / 3600, 60.0, 40.0
    try:
        for it in range(reps):
            N_ = rng.choice((1, 2, 3))
            link = M.Link(N_, 2, 1.0, 180.0, 33.5, 102.0, 1.867, name="L")
            net = M.Network().add_path((M.Node(name="A"), link, M.Node(name="B")), origin=M.Origin(name="O"), destination=M.Destination(name="D"))
            rho = np.array([rng.uniform(10.0, 80.0) for _ in range(N_)])
            v = np.array([rng.uniform(30.0, 100.0) for _ in range(N_)])
            eng = WeatherEngine()
            how = ("explicit", "selected")[it % 2]
            E.use(eng if how == "selected" else saved)
            kw_ = dict(T=T, tau=tau, eta=eta, kappa=kappa)
            if how == "explicit":
                kw_["engine"] = eng
            models = [EN.LinksEngine, WetLinks, EN.LinksEngine] if it % 4 < 2 else [WetLinks, EN.LinksEngine, WetLinks]
            for model in models:
                eng.link_model = model
                try:
                    net.step(init_conditions={link: {"rho": rho.copy(), "v": v.copy()}}, **kw_)
                    got = np.asarray(link.next_states["v"], float).ravel()
                    twin = M.Link(N_, 2, 1.0, 180.0, 33.5, 102.0, 1.867, name="L")
                    tnet = M.Network().add_path((M.Node(name="A"), twin, M.Node(name="B")), origin=M.Origin(name="O"), destination=M.Destination(name="D"))
                    fresh = WeatherEngine()
                    fresh.link_model = model
                    tnet.step(init_conditions={twin: {"rho": rho.copy(), "v": v.copy()}}, engine=fresh, T=T, tau=tau, eta=eta, kappa=kappa)
                    exp = np.asarray(twin.next_states["v"], float).ravel()
                except Exception as e:
                    rec.violation(f"{PROP}:an engine whose link model is re-configured in place: stepping raised {type(e).__name__}", {"exception": repr(e)[:300]})
                    break
                rec.count("steps_with_a_reconfigured_link_model")
                if not np.allclose(got, exp, rtol=1e-12, atol=1e-12, equal_nan=True):
                    rec.violation(f"{PROP}:a quantity was not computed by the ({how}) engine as it is configured at the time of the step: the link model it held at an earlier step was used",
                                  {"how": how, "model_now": model.__name__, "next_speeds": got.tolist(), "with_a_fresh_engine_of_that_configuration": exp.tolist()})
                    break
    finally:
        E.use(saved)


def selection_histories(M, rec, rng, n_hist):
    import sym_metanet
    from sym_metanet import engines as E
    from sym_metanet.errors import EngineNotFoundError

    NE, CE = drive.engines(M)
    from concurrent.futures import ThreadPoolExecutor

    # one long-lived worker thread: some operations of a history are carried out there (a GUI / pool
    # worker that selects or reads the engine), strictly one after the other - the selection is one
    # per process, whoever makes or reads it
    worker = ThreadPoolExecutor(max_workers=1)
    from sym_metanet.engines import numpy as EN_

    class ValueNP(EN_.Engine):
        def __init__(self, fill):
            super().__init__(var_type=fill)
            self.fill = fill

        def __eq__(self, other):
            return type(other) is type(self) and other.fill == self.fill

        def __hash__(self):
            return hash(("ValueNP", self.fill))

    for _ in range(n_hist):
        model = E.get_current_engine()
        hist = []

        def apply_op(op):
            nonlocal model
            if True:
                if op == "name":
                    nm = rng.choice(("numpy", "casadi"))
                    kw = {}
                    if nm == "casadi" and rng.random() < 0.5:
                        kw = {"sym_type": rng.choice(("SX", "MX"))}
                    if nm == "numpy" and rng.random() < 0.5:
                        kw = {"var_type": rng.choice(("rand", "randn", "empty"))}
                    try:
                        # the engine's own options travel through use() by keyword or positionally
                        if kw and rng.random() < 0.5:
                            r = E.use(nm, *kw.values())
                            rec.count("selections_by_name_with_positional_engine_options")
                        else:
                            r = E.use(nm, **kw)
                    except Exception as e:
                        rec.violation(f"{PROP}:use('{nm}') refused a valid engine name ({type(e).__name__})",
                                      {"history": hist, "exception": repr(e)[:200]})
                        return True
                    ok = (type(r).__module__.endswith("engines." + nm)) and E.get_current_engine() is r and sym_metanet.engine is r and r is not model
                    if kw.get("sym_type") and r.sym_type.__name__ != kw["sym_type"]:
                        ok = False
                    if kw.get("var_type") and getattr(r, "var_type", None) != kw["var_type"]:
                        ok = False
                    if nm == "casadi" and not kw and r.sym_type.__name__ != "SX":
                        ok = False  # documented default symbol type
                    if not ok:
                        rec.violation(f"{PROP}:use('{nm}') did not make a new engine of that kind the current one", {"history": hist})
                    model = r
                elif op == "instance":
                    inst = rng.choice((NE(), CE("SX"), CE("MX")))
                    r = E.use(inst)
                    if r is not inst or E.get_current_engine() is not inst or sym_metanet.engine is not inst:
                        rec.violation(f"{PROP}:use(instance) did not make that instance the current engine", {"history": hist})
                    model = inst
                elif op == "equal_instance":
                    # engines with VALUE equality (a dataclass-like engine: equal configuration, equal engine) - selecting an
                    # instance makes THAT object the current one, also when an equal one is selected already
                    first_, second_ = ValueNP(0.5), ValueNP(0.5)
                    second_.var_type = 25.0  # re-configured after construction; equality does not look at it
                    E.use(first_)
                    r = E.use(second_)
                    rec.count("selections_of_an_instance_equal_to_the_current_one")
                    if r is not second_ or E.get_current_engine() is not second_ or sym_metanet.engine is not second_:
                        rec.violation(f"{PROP}:use(instance) did not make that instance the current engine (an equal but distinct engine object was selected before)",
                                      {"history": hist})
                    model = E.get_current_engine()
                elif op == "unknown":
                    nm = rng.choice(("Numpy", "torch", "", "casadi ", "jax"))
                    try:
                        E.use(nm)
                        rec.violation(f"{PROP}:use(unknown name) did not raise", {"name": nm, "history": hist})
                    except EngineNotFoundError:
                        rec.count("unknown_refused")
                    except Exception as e:
                        rec.violation(f"{PROP}:use(unknown name) raised {type(e).__name__} instead of the engine-not-found error", {"name": nm})
                    if E.get_current_engine() is not model or sym_metanet.engine is not model:
                        rec.violation(f"{PROP}:use(unknown name) changed the selection", {"name": nm, "history": hist,
                                                                                         "now": repr(E.get_current_engine())})
                        E.use(model) if model is not None else None
                elif op == "listing":
                    # the table of available engines is the caller's to keep and edit: it is information, not
                    # the selection mechanism's own state
                    try:
                        tab = E.get_available_engines()
                        if not {"numpy", "casadi"} <= set(tab):
                            rec.violation(f"{PROP}:get_available_engines() does not list the numpy and casadi engines", {"history": hist, "listed": sorted(map(str, tab))})
                        how = rng.choice(("pop", "clear", "bogus", "edit", "none"))
                        if how == "pop":
                            tab.pop(rng.choice(("numpy", "casadi")), None)
                        elif how == "clear":
                            tab.clear()
                        elif how == "bogus":
                            tab["torch"] = {"module": "sym_metanet.engines.torch", "class": "Engine"}
                            tab["jax"] = dict(next(iter(tab.values())))
                        elif how == "edit":
                            for v_ in tab.values():
                                if isinstance(v_, dict):
                                    for k_ in list(v_):
                                        v_[k_] = "nonsense"
                        rec.seen("listing_edits", how)
                    except Exception as e:
                        rec.violation(f"{PROP}:get_available_engines() raised {type(e).__name__}", {"history": hist})
                    if E.get_current_engine() is not model or sym_metanet.engine is not model:
                        rec.violation(f"{PROP}:listing the available engines changed the selection", {"history": hist})
                elif op == "nonstring":
                    try:
                        E.use(rng.choice((object(), 3, None)))
                    except Exception:
                        pass
                    if E.get_current_engine() is not model:
                        rec.violation(f"{PROP}:use(non-engine object) changed the selection", {"history": hist})
                        E.use(model)
                else:
                    if E.get_current_engine() is not model or sym_metanet.engine is not model:
                        rec.violation(f"{PROP}:get_current_engine() does not return the selected engine", {"history": hist})
            return False

        for _s in range(rng.randint(3, 12)):
            op = rng.choice(("name", "name", "instance", "equal_instance", "unknown", "get", "nonstring", "listing"))
            where = "worker thread" if rng.random() < 0.35 else "main thread"
            hist.append(op if where == "main thread" else op + "@worker")
            rec.count("selection_ops")
            rec.seen("selection_op_kinds", op)
            rec.seen("selection_threads", where)
            stop = worker.submit(apply_op, op).result() if where == "worker thread" else apply_op(op)
            if stop:
                break
        rec.count("selection_histories")
    worker.shutdown()


def run(M, rec, tier, seed, k, n):
    np.seterr(all="ignore")
    rng = random.Random(seed * 1000 + k + 1300)
    g = G.NetGen(rng)
    from sym_metanet import engines as E

    saved = E.get_current_engine()
    try:
        selection_histories(M, rec, rng, 300 if tier == "quick" else 10000)
        spy_runs(M, rec, rng, g, 45 if tier == "quick" else 700)
        fill_value_engines(M, rec, rng, g, 30 if tier == "quick" else 400)
        user_engine_runs(M, rec, rng, g, 40 if tier == "quick" else 500)
        reconfigured_link_model(M, rec, rng, 24 if tier == "quick" else 240)
    finally:
        E.use(saved)


def finish(M, rec, write=True):
    if not rec.violations:
        rec.gate(rec.n_seen("pairs") == 6, "not all ordered (selected, explicit) pairs exercised")
        rec.gate(rec.counters.get("unknown_refused", 0) > 0, "unknown names never tried")
        rec.gate(rec.counters.get("default_runs", 0) > 0, "no default-engine run")
    return rec.finish(
        ["explicit_runs", "default_runs", "selection_ops"],
        ["pairs", "selection_op_kinds"],
        rule="random selection histories (names with constructor arguments, instances, unknown names, non-engine objects, reads) against "
        "a 10-line model; for networks with every element kind / random shapes (delta and phi given, random positivity options) all six "
        "ordered pairs (selected spy engine, explicit engine) over numpy/SX/MX: spy must stay silent, every variable and next state must "
        "have the explicit engine's type, selection untouched; and default runs where the spy must do the work; distinct = engine pairs + "
        "selection operation kinds",
        write=write,
    )
