"""C12 — stepping is a pure, repeatable function of the supplied values.

Traps and snapshots around ``Network.step``: caller arrays are made read-only (an
in-place write raises at the offending line and is recorded with its location); byte
snapshots of arrays, identity/str of symbols, shallow snapshots of the supplied
dictionaries and of every element parameter are compared before/after.  Histories of
steps and compilations with other values, engines and options on the same objects are
followed by a repeat of the first step, which must reproduce its result (NumPy bitwise,
CasADi to 1e-12) and equal a fresh twin network.
"""
import math
import random
import traceback

import numpy as np

from vf import compiled as C, desc as D, drive, gen as G, oracle as O, refmodel as R, workloads as W

PROP = "C12"
WATCHDOG_S = 3000
PARAM_ATTRS = ("N", "lam", "L", "rho_max", "rho_crit", "v_free", "a", "turnrate", "vsl", "alpha", "C", "flow_eq_type", "name")


def snap_params(built):
    s = {}
    for eid, el in built.elements.items():
        for a in PARAM_ATTRS:
            if hasattr(el, a):
                v = getattr(el, a)
                s[(eid, a)] = (id(v), repr(v))
    for nid, nd in built.nodes.items():
        s[(nid, "name")] = (id(nd.name), repr(nd.name))
    return s


def snap_ic(ic):
    s = {"outer_keys": [id(k) for k in ic], "inner": {}}
    for el, d in ic.items():
        s["inner"][id(el)] = [(k, id(v), _content(v)) for k, v in d.items()]
    return s


def _content(v):
    if isinstance(v, np.ndarray):
        return (v.shape, v.dtype.str, v.tobytes())
    if isinstance(v, float):
        return ("float", repr(v))
    return ("sym", str(v), tuple(getattr(v, "shape", ())))


def where_in_repo(exc):
    loc = "?"
    for fs in traceback.extract_tb(exc.__traceback__):
        if "sym_metanet" in fs.filename:
            loc = fs.filename.split("sym_metanet/")[-1] + ":" + fs.name
    return loc


def guarded_step(rec, built, ic, engine, kw, opts, label, ctx, via="net", rng=None, only_init=None):
    """Steps with snapshots; returns True if the step completed.  via: through Network.step or through
    the element-level calls (a user's own per-element loop)."""
    before_ic = snap_ic(ic)
    before_p = snap_params(built)
    rec.count("guarded_steps")
    if via != "net":
        rec.count("guarded_steps_through_element_level_calls")
    try:
        if via == "net":
            built.net.step(init_conditions=ic, engine=engine, **opts, **kw)
        else:
            drive.step_elements(built.net, via, init_conditions=ic, engine=engine, rng=rng, only_init=only_init, **opts, **kw)
    except ValueError as e:
        if "read-only" in str(e) or "readonly" in str(e):
            rec.violation(f"{PROP}:{label}: in-place write into a caller-supplied array at {where_in_repo(e)}",
                          dict(ctx, exception=repr(e)[:200], where=where_in_repo(e)))
            return False
        rec.count("step_raised_other")
        rec.seen("step_raised_other", repr(e)[:120])
        return False
    except Exception as e:
        rec.count("step_raised_other")
        rec.seen("step_raised_other", repr(e)[:120])
        return False
    after_ic = snap_ic(ic)
    if before_ic["outer_keys"] != after_ic["outer_keys"]:
        rec.violation(f"{PROP}:{label}: the supplied init_conditions dictionary was modified (outer keys)", ctx)
    for k, items in before_ic["inner"].items():
        a = after_ic["inner"].get(k)
        if a is None or [(x[0], x[1]) for x in a] != [(x[0], x[1]) for x in items]:
            rec.violation(f"{PROP}:{label}: a supplied per-element dictionary was modified (keys or value identity)", ctx)
        elif a != items:
            rec.violation(f"{PROP}:{label}: the content of a supplied array/symbol changed", ctx)
    if snap_params(built) != before_p:
        rec.violation(f"{PROP}:{label}: an element parameter changed during the step", ctx)
    return True


def eval_sym(built, st, symvals):
    lay = D.var_layout(built.desc)
    exprs, index = [], []
    for eid, L in lay.items():
        for name, n in L["states"]:
            exprs.append(built.el(eid).next_states[name])
            index.append((eid, name))
    nums, _ = O.eval_exprs(exprs, st, symvals)
    return {k: v for k, v in zip(index, nums)}


def history(M, rec, rng, g, desc):
    NE, CE = drive.engines(M)
    ops = D.random_ops(desc, rng)
    import copy as _copy

    # numeric parameters may be NumPy values (0-d arrays, float64, length-1 turn rates): mutable objects the
    # step must leave alone just like the supplied arrays
    po = W.numpy_param_forms(desc, rng) if rng.random() < 0.25 else None
    if po:
        rec.count("histories_with_numpy_valued_parameters")
    built = D.build(M, desc, ops, param_override=_copy.deepcopy(po))
    pars = g.pars()
    kw = drive.step_pars(pars)
    _, vals0 = g.values(desc, allow_inf=(rng.random() < 0.3))
    as_int = rng.random() < 0.15
    if as_int:
        vals0 = drive.integerise(vals0)
    elif rng.random() < 0.3:
        # metering rates as an optimiser returns them for an active bound r <= 1: above one by its tolerance
        for o_ in desc["origins"]:
            if o_["kind"] == "ramp" and "r" in vals0.get(o_["id"], {}):
                vals0[o_["id"]]["r"] = 1.0 + rng.choice((1e-8, 1e-6, 1e-10))
                rec.count("histories_with_a_metering_rate_above_one_by_a_solver_tolerance")
    opts0 = {o: True for o in ("positive_init_speed", "positive_next_speed", "positive_next_density", "positive_init_queue") if rng.random() < 0.2}
    first_engine = rng.choice(("numpy", "numpy", "SX", "MX"))
    via = drive.pick_via(rng, 0.3)
    if via == "elements_shuffled":
        via = "elements_links_first"  # the order itself must be repeatable for the bitwise comparison
    if via != "net":
        rec.count("histories_stepped_through_element_level_calls")
    eng_np = NE()  # one NumPy engine instance for the whole history (as a simulation loop would use)
    eng_cs = CE(first_engine) if first_engine != "numpy" else None
    ctx = {"desc": desc, "pars": pars, "vals": vals0, "opts": opts0, "first_engine": first_engine}
    symvals = O.SymVals(random.Random(5))

    def first_step(b):
        if first_engine == "numpy":
            ic = drive.np_init(b, vals0, "vec1", readonly=True, int_dtype=as_int)
            ok = guarded_step(rec, b, ic, (eng_np if b is built else NE()), kw, opts0, "numpy", dict(ctx, stepped_via=via), via, rng)
            return (drive.read_next(b) if ok else None), ic
        ic, syms = drive.sym_init(M, b, first_engine, symvals, vals0)
        ok = guarded_step(rec, b, ic, (eng_cs if b is built else CE(first_engine)), kw, opts0, first_engine, dict(ctx, stepped_via=via), via, rng)
        return (eval_sym(b, first_engine, symvals) if ok else None), ic

    # sometimes the objects already have a past (so leftovers of earlier steps would show)
    if rng.random() < 0.6:
        try:
            _, vpre = g.values(desc, allow_inf=False)
            pre = rng.choice(("numpy", "own", "sym"))
            if pre == "numpy":
                built.net.step(init_conditions=drive.np_init(built, vpre, "vec1"), engine=NE(), **drive.step_pars(g.pars()))
            elif pre == "own":
                built.net.step(engine=NE(var_type="rand"), **kw)
            else:
                built.net.step(engine=CE(rng.choice(("SX", "MX"))), **kw)
            rec.count("histories_with_a_past")
        except Exception as e:
            rec.count("intermediate_raised")
    r1, ic1 = first_step(built)
    if r1 is None:
        return
    # intermediate operations on the same objects
    hist = []
    last_kind = first_engine  # what kind of variables the elements currently hold
    kind_after = {"np_step_failing_half_way": None, "np_same_state_other_controls": "numpy", "np_other_values": "numpy", "np_other_options": "numpy", "sx": "SX", "mx": "MX", "own_vars": "numpy",
                  "same_arrays_again": "numpy", "refresh_in_place": "numpy", "elements_other_values": first_engine,
                  "elements_partial_init": first_engine}
    for _ in range(rng.randint(2, 7)):
        op = rng.choice(("np_other_values", "np_other_options", "sx", "mx", "compile", "own_vars", "same_arrays_again",
                         "refresh_in_place", "refresh_in_place", "elements_other_values", "elements_partial_init",
                         "np_same_state_other_controls", "np_same_state_other_controls", "np_step_failing_half_way"))
        hist.append(op)
        last_kind_before = last_kind
        try:
            if op in ("np_other_values", "np_other_options"):
                _, v = g.values(desc, allow_inf=False)
                o = {x: True for x in ("positive_init_speed", "positive_init_density", "positive_init_queue", "positive_next_speed",
                                       "positive_next_density", "positive_next_queue") if rng.random() < (0.6 if op.endswith("options") else 0.0)}
                ic = drive.np_init(built, v, rng.choice(("vec1", "0d", "float")), readonly=True)
                guarded_step(rec, built, ic, NE(), drive.step_pars(g.pars()), o, "numpy", dict(ctx, intermediate=op))
            elif op == "np_step_failing_half_way":
                # a Network.step that raises while the links are being stepped (a wrongly sized array for the last
                # link): the caller catches it and carries on with the same objects
                _, v = g.values(desc, allow_inf=False)
                ic = drive.np_init(built, v, "vec1")
                last = list(built.net.links)[-1][-1]
                if last in ic and "v" in ic[last]:
                    ic[last]["v"] = np.append(np.asarray(ic[last]["v"], dtype=float), 50.0)
                    try:
                        built.net.step(init_conditions=ic, engine=rng.choice((eng_np, NE())), **kw)
                        rec.count("steps_expected_to_fail_that_did_not")
                    except Exception:
                        rec.count("steps_failing_half_way")
            elif op == "np_same_state_other_controls":
                # candidate controls compared from ONE traffic state (a one-step look-ahead controller): the
                # very same densities / speeds / queues, other (tighter or looser) limits, rates and flows
                import math as _m

                v = {k_: {n_: (list(x_) if isinstance(x_, list) else x_) for n_, x_ in d_.items()} for k_, d_ in vals0.items()}
                f_ = rng.choice((0.25, 0.5, 0.8, 1.5))
                for eid_, d_ in v.items():
                    for n_ in ("v_ctrl", "r", "q"):
                        if n_ in d_:
                            if isinstance(d_[n_], list):
                                d_[n_] = [(30.0 * f_ if _m.isinf(x_) else x_ * f_) for x_ in d_[n_]]
                            else:
                                d_[n_] = min(1.0, d_[n_] * f_) if n_ == "r" else (30.0 * f_ if _m.isinf(d_[n_]) else d_[n_] * f_)
                ic = drive.np_init(built, v, "vec1", readonly=True)
                guarded_step(rec, built, ic, rng.choice((eng_np, NE())), kw, opts0, "numpy", dict(ctx, intermediate=op))
            elif op in ("elements_other_values", "elements_partial_init"):
                # a per-element loop with the history's own engine object and other values; in the partial
                # form only the links are given new values, the other elements keep what they hold
                _, v = g.values(desc, allow_inf=False)
                v_via = rng.choice(drive.VIAS[1:])
                only = list(built.links.values()) if (op.endswith("partial_init") and last_kind == first_engine) else None
                if first_engine == "numpy":
                    ic = drive.np_init(built, v, "vec1", readonly=True)
                    guarded_step(rec, built, ic, eng_np, kw, {}, "numpy", dict(ctx, intermediate=op), v_via, rng, only)
                else:
                    ic, _s = drive.sym_init(M, built, first_engine, prefix="e_")
                    guarded_step(rec, built, ic, eng_cs, kw, {}, first_engine, dict(ctx, intermediate=op), v_via, rng, only)
            elif op in ("sx", "mx"):
                st = op.upper()
                ic, _s = drive.sym_init(M, built, st, prefix="h_")
                guarded_step(rec, built, ic, CE(st), kw, {}, st, dict(ctx, intermediate=op))
            elif op == "compile":
                st = rng.choice(("SX", "MX"))
                e = CE(st)
                built.net.step(engine=e, **kw)
                e.to_function(built.net, compact=rng.choice((0, 1, 2)), more_out=rng.random() < 0.5, **kw)
            elif op == "own_vars" and rng.random() < 0.5:
                # one and the same empty mapping for several elements: each gets variables of its own and the
                # mapping stays empty
                shared = {}
                ic = {el_: shared for el_ in built.links.values()}
                guarded_step(rec, built, ic, NE(var_type="rand"), kw, {}, "numpy", dict(ctx, intermediate="own_vars, one shared empty inner mapping"))
            elif op == "own_vars":
                built.net.step(engine=NE(var_type="rand"), **kw)
            elif op == "same_arrays_again" and first_engine == "numpy":
                guarded_step(rec, built, ic1, eng_np, kw, opts0, "numpy", dict(ctx, intermediate=op))
            elif op == "refresh_in_place" and first_engine == "numpy" and not as_int:
                # the caller overwrites the CONTENT of its own buffers and steps again with the same
                # arrays, dictionary and engine: the result must be that of a fresh network from these values
                _, vnew = g.values(desc, allow_inf=False)
                fresh = drive.np_init(built, vnew, "vec1")
                for el_, d_ in fresh.items():
                    for name_, arr_ in d_.items():
                        tgt = ic1[el_][name_]
                        tgt.flags.writeable = True
                        tgt[...] = arr_
                        tgt.flags.writeable = False
                if guarded_step(rec, built, ic1, eng_np, kw, opts0, "numpy", dict(ctx, intermediate=op)):
                    got = drive.read_next(built)
                    tw = D.build(M, desc, ops, param_override=_copy.deepcopy(po))
                    tw.net.step(init_conditions=drive.np_init(tw, vnew, "vec1"), engine=NE(), **opts0, **kw)
                    rec.count("refresh_in_place_comparisons")
                    if not _bitwise(got, drive.read_next(tw)):
                        rec.violation(f"{PROP}:numpy: stepping from buffers refreshed in place differs from a fresh network stepped from the same values",
                                      dict(ctx, values=vnew, history=hist))
                # restore the first values in place for the final repeat
                back = drive.np_init(built, vals0, "vec1")
                for el_, d_ in back.items():
                    for name_, arr_ in d_.items():
                        tgt = ic1[el_][name_]
                        tgt.flags.writeable = True
                        tgt[...] = arr_
                        tgt.flags.writeable = False
            last_kind = kind_after.get(op)
            if op in ("same_arrays_again", "refresh_in_place") and first_engine != "numpy":
                last_kind = last_kind_before
        except Exception as e:
            last_kind = None
            rec.count("intermediate_raised")
            rec.seen("intermediate_raised", repr(e)[:100])
    rec.seen("history_ops", tuple(sorted(set(hist))))
    # repeat the first step on the same objects and on a fresh twin
    if first_engine != "numpy":
        symvals.clear()
    r2, _ = first_step(built)
    twin = D.build(M, desc, ops, param_override=_copy.deepcopy(po))
    if first_engine != "numpy":
        symvals.clear()
    r3, _ = first_step(twin)
    rec.count("histories")
    for tag, rr in (("repeat on the same objects", r2), ("fresh twin network", r3)):
        if rr is None:
            continue
        rec.count("repeat_comparisons")
        if first_engine == "numpy":
            same = _bitwise(r1, rr)
        else:
            same = all(_close(a, b) for k in r1 for a, b in zip(r1[k], rr[k]))
        if not same:
            rec.violation(f"{PROP}:{first_engine}: first step not reproduced by {tag} after {_hkey(hist)}",
                          dict(ctx, history=hist, first=_show(r1), again=_show(rr)))
    if rec.counters["histories"] == 2:
        rec.sample({"desc": desc, "first_engine": first_engine, "history": hist})


def _hkey(hist):
    return "a history containing " + "+".join(sorted(set(hist)))


def _show(r):
    return {str(k): v for k, v in r.items()}


def _bitwise(a, b):
    for eid, d in a.items():
        for name, v in d.items():
            x = np.asarray(v, dtype=float)
            y = np.asarray(b[eid][name], dtype=float)
            if x.tobytes() != y.tobytes() and not (np.isnan(x) == np.isnan(y)).all():
                return False
            if x.tobytes() != y.tobytes() and not np.array_equal(x, y, equal_nan=True):
                return False
    return True


def _close(a, b):
    if math.isnan(a) or math.isnan(b):
        return math.isnan(a) and math.isnan(b)
    return a == b or abs(a - b) <= 1e-12 * (1 + abs(a) + abs(b))


def reconfigured_fill_engine(M, rec, rng, g, reps):
    """One live NumPy engine that fills the variables the caller does not supply (`var_type=<number>`),
    re-configured through its documented setter between steps: stepping again with the configuration and the
    values of the first step gives the first result."""
    NE, CE = drive.engines(M)
    sh = W.shapes_cycle()
    for it in range(reps):
        desc = g.all_kinds_network() if it % 3 == 0 else g.network(next(sh))[1]
        built = D.build(M, desc, D.random_ops(desc, rng))
        kw = drive.step_pars(g.pars())
        _, vals = g.values(desc, allow_inf=False)
        # only the links are supplied: queues, demands, rates, limits ... are filled by the engine
        full = drive.np_init(built, vals, "vec1")
        ic = {el_: {k_: v_ for k_, v_ in d_.items() if k_ in ("rho", "v")} for el_, d_ in full.items() if el_ in list(built.links.values())}
        a, b = rng.sample((0.0, 0.5, 1.0, 30.0, 800.0), 2)
        eng = NE(var_type=a)
        try:
            built.net.step(init_conditions=ic, engine=eng, **kw)
            r1 = drive.read_next(built)
            eng.var_type = b
            built.net.step(init_conditions=ic, engine=eng, **kw)
            r2 = drive.read_next(built)
            built.net.step(init_conditions=ic, engine=NE(var_type=b), **kw)
            r2_fresh = drive.read_next(built)
            eng.var_type = a
            built.net.step(init_conditions=ic, engine=eng, **kw)
            r3 = drive.read_next(built)
        except Exception as e:
            rec.count("fill_engine_history_raised")
            rec.seen("fill_engine_history_raised", repr(e)[:100])
            continue
        rec.count("reconfigured_fill_engine_histories")
        if not _bitwise(r2, r2_fresh):
            rec.violation(f"{PROP}:numpy: a fill-value engine re-configured through its setter does not step like a fresh engine with that configuration (what it stepped before shows)",
                          {"desc": desc, "fill_values": [a, b], "reconfigured": _show(r2), "fresh": _show(r2_fresh)})
        if not _bitwise(r1, r3):
            rec.violation(f"{PROP}:numpy: with a fill-value engine re-configured through its setter and set back, the first step is not reproduced",
                          {"desc": desc, "fill_values": [a, b, a], "first": _show(r1), "again": _show(r3)})


def finite_difference_steps(M, rec, rng, g, reps):
    """Sensitivity / calibration by finite differences: the same network objects are stepped from the same values with
    one parameter moved by a relative 1.5e-8 (scipy's default step) in place.  How much each next state moves must be what
    the model says (scalar reference evaluated at both parameter values) - a result remembered from the step before
    (parameters "equal up to float noise") would make it exactly zero."""
    import copy

    NE, CE = drive.engines(M)
    for it in range(reps):
        desc = copy.deepcopy(g.all_kinds_network() if it % 4 == 0 else g.network(("chain", "ramp", "merge", "random")[it % 4])[1])
        if any(o.get("user") or o.get("user_cap_flow") is not None for o in desc["origins"]) or any(l.get("user_cap") is not None or l.get("user_reorder") for l in desc["links"]):
            continue
        ins, outs, org, dst = R.topology(desc)
        pars = g.pars()
        kw = drive.step_pars(pars)
        _, vals = g.values(desc, "interior", allow_inf=False)
        mains = [o for o in desc["origins"] if o["kind"] == "main"]
        for o in mains:  # the capacity limit of a mainstream origin is where a link constant enters
            vals[o["id"]].update(d=rng.uniform(6000.0, 9000.0), w=rng.uniform(20.0, 60.0), v_ctrl=rng.choice((1e3, 500.0)))
        if R.is_singular(desc, vals):
            continue
        if mains and rng.random() < 0.7:
            l = outs[rng.choice(mains)["node"]][0]
        else:
            l = rng.choice(desc["links"])
        attr = rng.choice(("a", "v_free", "rho_crit"))
        built = D.build(M, desc)
        el = built.links[l["id"]]
        p0 = float(l[attr])
        eng = NE()
        try:
            order = (p0, p0 * (1.0 + 1.5e-8)) if it % 2 == 0 else (p0 * (1.0 + 1.5e-8), p0)
            res, refs = [], []
            for p_ in order:
                setattr(el, attr, p_)
                l[attr] = p_
                built.net.step(init_conditions=drive.np_init(built, vals, "vec1"), engine=eng, **kw)
                res.append(drive.read_next(built))
                refs.append(R.ref_step(desc, vals, pars, {}).next)
        except (R.Singular, R.Inadmissible):
            continue
        except Exception as e:
            rec.count("finite_difference_history_raised")
            rec.seen("finite_difference_history_raised", repr(e)[:100])
            continue
        rec.count("finite_difference_pairs")
        rec.seen("finite_difference_parameters", attr)
        bad = None
        for eid, d in refs[0].items():
            for nm, e0 in d.items():
                e0s, e1s = (e0 if isinstance(e0, list) else [e0]), (refs[1][eid][nm] if isinstance(refs[1][eid][nm], list) else [refs[1][eid][nm]])
                r0s, r1s = (res[0][eid][nm] if isinstance(res[0][eid][nm], list) else [res[0][eid][nm]]), (res[1][eid][nm] if isinstance(res[1][eid][nm], list) else [res[1][eid][nm]])
                for i_, (a0, a1, b0, b1) in enumerate(zip(e0s, e1s, r0s, r1s)):
                    if not all(map(math.isfinite, (a0, a1, b0, b1))):
                        continue
                    rec.count("finite_difference_scalars")
                    dr, dl = a1 - a0, b1 - b0
                    if abs(dr) > 1e-9 * (1 + abs(a0)):
                        rec.count("finite_difference_scalars_that_move")
                    if abs(dl - dr) > 1e-3 * abs(dr) + 1e-10 * (1.0 + abs(a0)) and bad is None:
                        bad = {"element": eid, "var": nm, "index": i_, "moved_by": dl, "model_says": dr, "value": b0}
        if bad is not None:
            rec.violation(f"{PROP}:numpy: stepping the same objects from the same values with a link parameter moved by a finite-difference step does not move "
                          f"{bad['var']}+ as the model says (what was stepped before shows)",
                          dict(bad, desc=desc, parameter=attr, values=list(order), vals=vals, pars=pars))


def fill_engine_buffers_written_in_place(M, rec, rng, g, reps):
    """One fill-value NumPy engine and partial initial conditions (queues, demands, rates ... left to the engine): the caller
    advances the simulation by writing INTO the arrays the engine created (`el.states[name][...] = el.next_states[name]`),
    then starts a second scenario from the same supplied values with the same engine: what is left to the engine starts
    from the fill value again, the first result is reproduced."""
    NE, CE = drive.engines(M)
    sh = W.shapes_cycle()
    for it in range(reps):
        desc = g.all_kinds_network() if it % 3 == 0 else g.network(next(sh))[1]
        built = D.build(M, desc, D.random_ops(desc, rng))
        kw = drive.step_pars(g.pars())
        _, vals = g.values(desc, allow_inf=False)
        full = drive.np_init(built, vals, "vec1")
        ic = {el_: {k_: v_ for k_, v_ in d_.items() if k_ in ("rho", "v")} for el_, d_ in full.items() if el_ in list(built.links.values())}
        eng = NE(var_type=rng.choice((0.0, 0.5, 1.0, 30.0)))
        try:
            built.net.step(init_conditions=ic, engine=eng, **kw)
            r1 = drive.read_next(built)
            written = 0
            for el in list(built.net.elements):
                for grp in (el.states, el.actions, el.disturbances):
                    for nm, arr in (grp or {}).items():
                        if isinstance(arr, np.ndarray) and arr.flags.writeable and not any(arr is x_ for d_ in ic.values() for x_ in d_.values()):
                            nxt_ = (el.next_states or {}).get(nm) if grp is el.states else None
                            src = np.asarray(nxt_, float).reshape(arr.shape) if nxt_ is not None and np.size(nxt_) == arr.size else arr * 2.0 + 7.0
                            arr[...] = np.where(np.isfinite(src), src, 5.0)
                            written += 1
            built.net.step(init_conditions=ic, engine=eng, **kw)
            r2 = drive.read_next(built)
        except Exception as e:
            rec.count("fill_engine_history_raised")
            rec.seen("fill_engine_history_raised", repr(e)[:100])
            continue
        if not written:
            continue
        rec.count("fill_engine_histories_with_buffers_written_in_place")
        if not _bitwise(r1, r2):
            rec.violation(f"{PROP}:numpy: after the caller wrote into the arrays a fill-value engine had created, a second scenario from the same supplied values "
                          "does not reproduce the first step (what the engine creates does not start from its fill value)",
                          {"desc": desc, "first": _show(r1), "again": _show(r2)})


def rebuilt_networks(M, rec, rng, reps):
    """A coarse corridor is built and stepped inside a helper (its Network is local and dies there), then a REFINED corridor
    is built from the same origin, nodes and links plus a new first link: stepping it gives what a corridor of fresh objects
    gives - whatever an element remembered about the network it used to be in (which no longer exists) plays no role."""
    import gc

    NE, CE = drive.engines(M)
    kw = dict(T=10 / 3600, tau=18 / 3600, eta=60.0, kappa=40.0)

    def objects(okind):
        nodes = [M.Node(name=f"N{i}") for i in range(4)]
        mk = lambda nm, N_: M.Link(N_, 2, 1.0, 180.0, 33.5, 102.0, 1.867, name=nm)  # noqa: E731
        links = {"La": mk("La", 2), "Lb": mk("Lb", 1), "Lx": mk("Lx", 2)}
        org = {"main": lambda: M.MainstreamOrigin(name="O"), "ramp": lambda: M.MeteredOnRamp(2000.0, name="O"), "simple": lambda: M.SimplifiedMeteredOnRamp(2000.0, name="O")}[okind]()
        return nodes, links, org, M.Destination(name="D")

    def ic_of(links, org, vals, which):
        ic = {links[k_]: {"rho": np.array(vals[k_]["rho"]), "v": np.array(vals[k_]["v"])} for k_ in which}
        ic[org] = {k_: np.array([x_]) for k_, x_ in vals["O"].items()}
        return ic

    for it in range(reps):
        okind = ("main", "ramp", "simple")[it % 3]
        vals = {k_: {"rho": [rng.uniform(10, 120) for _ in range(n_)], "v": [rng.uniform(20, 100) for _ in range(n_)]} for k_, n_ in (("La", 2), ("Lb", 1), ("Lx", 2))}
        vals["O"] = {"w": rng.uniform(0, 30), "d": rng.uniform(1500, 4000)}
        vals["O"].update({"main": {"v_ctrl": 300.0}, "ramp": {"r": rng.uniform(0.4, 1.0)}, "simple": {"q": rng.uniform(800.0, 3000.0)}}[okind])

        def coarse(nodes, links, org, dest):
            net = M.Network(name="coarse").add_path((nodes[0], links["La"], nodes[1], links["Lb"], nodes[2]), origin=org, destination=dest)
            net.step(init_conditions=ic_of(links, org, vals, ("La", "Lb")), engine=NE(), **kw)
            return id(net)

        def refined(nodes, links, org, dest, where=None):
            net = M.Network(name="refined")
            if where is not None:
                # the allocator commonly hands the dead network's memory to the next Network: make sure of it here (the
                # candidates that landed elsewhere are kept alive meanwhile)
                keep = []
                for _try in range(300):
                    if id(net) == where:
                        rec.count("rebuilt_networks_at_the_address_of_the_dead_one")
                        break
                    keep.append(net)
                    net = M.Network(name="refined")
            net.add_path((nodes[0], links["Lx"], nodes[3], links["La"], nodes[1], links["Lb"], nodes[2]), origin=org, destination=dest)
            net.step(init_conditions=ic_of(links, org, vals, ("La", "Lb", "Lx")), engine=NE(), **kw)
            return {nm_: {k_: np.asarray(x_, float).ravel().tolist() for k_, x_ in el_.next_states.items()} for nm_, el_ in list(links.items()) + [("O", org)] if el_.next_states}

        try:
            objs = objects(okind)
            dead = coarse(*objs)
            got = refined(*objs, where=dead)      # same origin, nodes and links; the coarse network is gone
            exp = refined(*objects(okind))
        except Exception as e:
            rec.count("rebuilt_network_history_raised")
            rec.seen("rebuilt_network_history_raised", repr(e)[:100])
            continue
        rec.count("rebuilt_network_histories")
        if not _bitwise(got, exp):
            rec.violation(f"{PROP}:numpy: a corridor rebuilt (refined) from objects that had been stepped in a network that no longer exists does not step like a corridor of fresh objects",
                          {"origin_kind": okind, "rebuilt": _show(got), "fresh": _show(exp)})


def failed_step_then_own_loop(M, rec, rng, g, reps):
    """Scripted in every run: a `Network.step` that raises while the links are being stepped (a wrongly sized array for the last
    link); the caller catches it and goes on with its own per-element loop from other values - which gives what that loop gives
    on a network that never saw the failing step."""
    NE, CE = drive.engines(M)
    sh = W.shapes_cycle()
    for it in range(reps):
        desc = g.all_kinds_network() if it % 3 == 0 else g.network(next(sh))[1]
        if len(desc["links"]) < 2:
            continue
        ops = D.random_ops(desc, rng)
        pars = g.pars()
        kw = drive.step_pars(pars)
        _, v_bad = g.values(desc, "interior", allow_inf=False)
        _, v = g.values(desc, "interior", allow_inf=False)
        via = rng.choice(("elements", "elements_links_first"))
        try:
            a = D.build(M, desc, ops)
            ic = drive.np_init(a, v_bad, "vec1")
            last = list(a.net.links)[-1][-1]
            ic[last]["v"] = np.append(np.asarray(ic[last]["v"], dtype=float), 50.0)
            try:
                a.net.step(init_conditions=ic, engine=NE(), **kw)
                rec.count("steps_expected_to_fail_that_did_not")
                continue
            except Exception:
                rec.count("steps_failing_half_way")
            drive.do_step(a.net, via, rng=rng, init_conditions=drive.np_init(a, v, "vec1"), engine=NE(), **kw)
            got = drive.read_next(a)
            b = D.build(M, desc, ops)
            drive.do_step(b.net, via, rng=rng, init_conditions=drive.np_init(b, v, "vec1"), engine=NE(), **kw)
            exp = drive.read_next(b)
        except Exception as e:
            rec.count("failed_step_history_raised")
            rec.seen("failed_step_history_raised", repr(e)[:100])
            continue
        rec.count("own_loops_after_a_failed_network_step")
        if not _bitwise(got, exp):
            rec.violation(f"{PROP}:numpy: after a Network.step that failed half-way, the caller's own per-element loop does not give what it gives on objects that never saw the failing step",
                          {"desc": desc, "after_the_failed_step": _show(got), "fresh": _show(exp)})


def run(M, rec, tier, seed, k, n):
    np.seterr(all="ignore")
    rng = random.Random(seed * 1000 + k + 1200)
    g = G.NetGen(rng)
    sh = W.shapes_cycle()
    for it in range(170 if tier == "quick" else 2500):
        shape = next(sh)
        desc = g.all_kinds_network() if it % 5 == 0 else g.network(shape)[1]
        rec.seen("net_signatures", D.signature(desc))
        history(M, rec, rng, g, desc)
    reconfigured_fill_engine(M, rec, rng, g, 30 if tier == "quick" else 300)
    finite_difference_steps(M, rec, rng, g, 80 if tier == "quick" else 800)
    fill_engine_buffers_written_in_place(M, rec, rng, g, 30 if tier == "quick" else 300)
    rebuilt_networks(M, rec, rng, 30 if tier == "quick" else 300)
    failed_step_then_own_loop(M, rec, rng, g, 24 if tier == "quick" else 240)


def finish(M, rec, write=True):
    if not rec.violations:
        rec.gate(rec.counters.get("repeat_comparisons", 0) > 0, "no repeat comparison")
        rec.gate(rec.counters.get("step_raised_other", 0) <= 0.02 * max(1, rec.counters.get("guarded_steps", 0)),
                 f"too many steps raised: {sorted(rec.cover.get('step_raised_other', []))[:3]}")
    return rec.finish(
        ["guarded_steps", "repeat_comparisons"],
        ["net_signatures", "history_ops"],
        rule="random valid networks; first step (NumPy with read-only caller arrays, or SX/MX with caller symbols) with snapshots of arrays, "
        "symbols, supplied dictionaries and element parameters before/after; then 2..7 intermediate operations on the same objects (other "
        "values, other options, SX/MX steps, compilation, engine-own variables, same arrays again); then the first step repeated on the "
        "same objects and on a fresh twin; distinct = network signatures + sets of intermediate operation kinds",
        write=write,
    )
