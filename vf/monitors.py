"""In-situ monitors attached from the harness to the real functions of the imported
``sym_metanet`` (no repository hook needed).  All monitors record and never raise
into, or alter the control flow of, the code under observation."""
import functools
import traceback

from vf import extract as X
from vf import oracle as O
from vf import refmodel as R


def innermost_repo_frame(exc):
    """file:function of the innermost traceback frame inside sym_metanet."""
    where = "?"
    for fs in traceback.extract_tb(exc.__traceback__):
        if "sym_metanet" in fs.filename:
            where = fs.filename.split("sym_metanet/")[-1] + ":" + fs.name
    return where


class StepMonitor:
    """Wraps ``Network.step``; after every call hands an observation to the given
    deciders ``f(ob, rec)``; exceptions escaping ``step`` on a valid network are handed
    to ``on_exception(net, kwargs, exc, rec)``."""

    def __init__(self, M, rec, symvals=None, deciders=(), on_exception=None, on_obs_error=None):
        self.M = M
        self.rec = rec
        self.symvals = symvals
        self.deciders = list(deciders)
        self.on_exception = on_exception
        self.on_obs_error = on_obs_error
        self._orig = None
        self.last = None
        self.enabled = True

    def install(self):
        M = self.M
        orig = M.Network.step
        self._orig = orig
        mon = self

        @functools.wraps(orig)
        def step(net, *args, **kwargs):
            if not mon.enabled:
                return orig(net, *args, **kwargs)
            return mon.around(net, args, kwargs, lambda: orig(net, *args, **kwargs))

        step._vf_monitor = mon
        M.Network.step = step
        return self

    def around(self, net, args, kwargs, run):
        """Runs one step (``Network.step`` itself, or the same step written with element-level calls)
        and observes it."""
        mon = self
        mon.rec.count("step_calls")
        try:
            out = run()
        except BaseException as exc:  # observed, then re-raised unchanged
            try:
                mon._exception(net, args, kwargs, exc)
            except Exception:
                mon.rec.count("monitor_internal_errors")
            raise
        try:
            mon._after(net, args, kwargs)
        except Exception as e:
            mon.rec.count("monitor_internal_errors")
            mon.rec.seen("monitor_internal_errors", repr(e)[:200])
        return out

    def uninstall(self):
        if self._orig is not None:
            self.M.Network.step = self._orig
            self._orig = None

    # -- helpers
    def _engine(self, args, kwargs):
        eng = kwargs.get("engine")
        if eng is None and len(args) >= 2:
            eng = args[1]
        if eng is None:
            eng = self.M.engines.get_current_engine()
        return eng

    def _kw(self, args, kwargs):
        names = ("init_conditions", "engine", "positive_init_speed", "positive_init_density",
                 "positive_init_queue", "positive_next_speed", "positive_next_density",
                 "positive_next_queue")
        kw = dict(kwargs)
        for n, a in zip(names, args):
            kw[n] = a
        return kw

    def _exception(self, net, args, kwargs, exc):
        bad = X.validity_conditions(self.M, net)
        if bad:
            self.rec.count("step_exceptions_on_invalid_network")
            return
        self.rec.count("step_exceptions_on_valid_network")
        if self.on_exception:
            self.on_exception(net, self._kw(args, kwargs), exc, self.rec)

    def _after(self, net, args, kwargs):
        bad = X.validity_conditions(self.M, net)
        if bad:
            self.rec.count("steps_on_invalid_network_skipped")
            return
        kw = self._kw(args, kwargs)
        eng = self._engine(args, kwargs)
        try:
            ob = O.observe(self.M, net, eng, kw, self.symvals)
        except R.Inadmissible as e:
            self.rec.count("observations_inadmissible")
            self.rec.seen("inadmissible_reasons", str(e))
            if self.on_obs_error:
                self.on_obs_error(net, kw, e, self.rec)
            return
        self.rec.count("observations")
        self.last = ob
        for f in self.deciders:
            f(ob, self.rec)
