"""Observation of a stepped live network and the oracles that decide on it.

An *observation* is taken after ``Network.step`` returned: the description is
extracted from the raw graph, the values are read from ``el.states / actions /
disturbances`` (so they are the values the update really used, after the optional
initial clamp) and the results from ``el.next_states``.  For a symbolic step the
monitor builds its *own* ``casadi.Function`` over all free symbols (not
``to_function``) and evaluates it at sampled points, which yields the same kind of
numeric observation.
"""
import math

import numpy as np

from vf import extract as X
from vf import refmodel as R
from vf.desc import var_layout

PAR_NAMES = ("T", "tau", "eta", "kappa", "delta", "phi")
OPT_NEXT = ("positive_next_speed", "positive_next_density", "positive_next_queue")


def engine_kind(engine):
    for cls in type(engine).__mro__:  # user-defined engines derived from the shipped ones count as their base
        mod = cls.__module__
        if mod.endswith("engines.numpy"):
            return "numpy"
        if mod.endswith("engines.casadi"):
            return engine.sym_type.__name__  # "SX" / "MX"
    return "other:" + type(engine).__name__


class Observation:
    __slots__ = ("desc", "objmap", "vals", "nxt", "pars", "opts", "kind", "shapes_ok",
                 "shape_notes", "point")


def _flat(x):
    return [float(t) for t in np.asarray(x, dtype=float).ravel()]


def _is_cs(x):
    import casadi as cs

    return isinstance(x, (cs.SX, cs.MX))


# ---------------------------------------------------------------------------
# symbol values


class SymVals:
    """Numeric values for symbols, looked up by symbol name.  The driver registers
    exact values; unknown symbols get a plausible value by name prefix."""

    def __init__(self, rng):
        self.rng = rng
        self.table = {}

    def set(self, name, value):
        self.table[name] = value

    def clear(self):
        self.table.clear()

    def _heur(self, name):
        r = self.rng
        n = name.lower()
        for pre, (lo, hi) in (
            ("rho_crit", (25.0, 40.0)),
            ("rho_max", (160.0, 200.0)),
            ("rho", (5.0, 100.0)),
            ("v_ctrl", (20.0, 140.0)),
            ("v_free", (90.0, 130.0)),
            ("v", (10.0, 110.0)),
            ("w", (0.0, 80.0)),
            ("d", (50.0, 3000.0)),
            ("r", (0.0, 1.0)),
            ("q", (50.0, 2500.0)),
            ("a", (1.2, 3.0)),
        ):
            if n == pre or n.startswith(pre + "_") or n.startswith(pre):
                return r.uniform(lo, hi)
        return r.uniform(0.5, 2.0)

    def get(self, name, size):
        t = self.table
        if name in t:
            v = t[name]
            arr = _flat(v)
            if len(arr) == size:
                return arr
            if len(arr) == 1:
                return arr * size
        # SX element of a vector symbol: name_k
        if size == 1 and "_" in name:
            base, _, k = name.rpartition("_")
            if k.isdigit() and base in t:
                arr = _flat(t[base])
                if int(k) < len(arr):
                    return [arr[int(k)]]
        vals = [self._heur(name) for _ in range(size)]
        t[name] = vals
        return vals


def eval_exprs(exprs, symtype, symvals: SymVals):
    """Evaluates a list of (casadi or numeric) expressions at the registered symbol
    values with an own casadi.Function.  Returns list of flat float lists."""
    import casadi as cs

    XX = getattr(cs, symtype)
    cols = []
    sizes = []
    for e in exprs:
        if isinstance(e, cs.DM):  # plain numbers held by CasADi (dense or structurally sparse)
            c = XX(cs.DM(np.asarray(e.full(), dtype=float).ravel(order="F").tolist()))
        elif _is_cs(e):
            if not isinstance(e, XX):
                raise R.Inadmissible("mixed symbol types")
            c = cs.vec(e)
        else:
            c = XX(cs.DM(np.asarray(e, dtype=float).ravel().tolist()))
        cols.append(c)
        sizes.append(int(c.numel()))
    cat = cs.vertcat(*cols) if cols else XX(0, 1)
    syms = cs.symvar(cat)
    G = cs.Function("G", syms, [cat])
    args = [cs.DM(symvals.get(s.name(), int(s.numel()))) for s in syms]
    out = np.asarray(G(*args), dtype=float).ravel() if syms else np.asarray(
        cs.Function("G", [], [cat])()["o0"], dtype=float
    ).ravel()
    res = []
    k = 0
    for n in sizes:
        res.append([float(x) for x in out[k : k + n]])
        k += n
    return res, [s.name() for s in syms]


# ---------------------------------------------------------------------------
# taking an observation


def observe(M, net, engine, step_kwargs, symvals: SymVals = None):
    """Returns an Observation of the network right after ``net.step`` returned.
    Raises Inadmissible when the state of the objects cannot be turned into numbers."""
    kind = engine_kind(engine)
    if kind not in ("numpy", "SX", "MX"):
        raise R.Inadmissible("unknown engine " + kind)
    ob = Observation()
    ob.kind = kind
    ob.point = None
    # 1. gather every quantity as an expression / number, in a flat list
    slots = []  # (where, key..., expr)

    def numparam(x):
        slots.append(x)
        return ("#", len(slots) - 1)

    desc, objmap = X.extract(M, net, num=numparam)
    lay = var_layout(desc)
    valslots = {}
    nxtslots = {}
    shapes_ok = True
    notes = []
    for eid, L in lay.items():
        el = objmap[eid]
        vs = {}
        for grp, attr in (("states", "states"), ("actions", "actions"), ("disturbances", "disturbances")):
            cur = getattr(el, attr)
            for name, n in L[grp]:
                if cur is None or name not in cur:
                    raise R.Inadmissible(f"{eid}.{attr}[{name}] missing")
                slots.append(cur[name])
                vs[name] = (len(slots) - 1, n)
        valslots[eid] = vs
        ns = {}
        for name, n in L["states"]:
            if el.next_states is None or name not in el.next_states:
                raise R.Inadmissible(f"{eid}.next_states[{name}] missing")
            slots.append(el.next_states[name])
            ns[name] = (len(slots) - 1, n)
            a, b = cur_shape(el.states[name]), cur_shape(el.next_states[name])
            if a is not None and b is not None and a != b:
                shapes_ok = False
                notes.append((eid, name, a, b))
        nxtslots[eid] = ns
    parslots = {}
    for p in PAR_NAMES:
        v = step_kwargs.get(p)
        if v is None:
            parslots[p] = None
        else:
            slots.append(v)
            parslots[p] = len(slots) - 1
    # 2. numbers
    if kind == "numpy":
        if any(_is_cs(s) for s in slots):
            raise R.Inadmissible("symbolic quantity under the NumPy engine")
        nums = [_flat(s) for s in slots]
    else:
        if symvals is None:
            raise R.Inadmissible("no symbol values")
        nums, _ = eval_exprs(slots, kind, symvals)

    def fill(x):
        if isinstance(x, tuple) and len(x) == 2 and x[0] == "#":
            arr = nums[x[1]]
            if len(arr) != 1:
                raise R.Inadmissible("non-scalar parameter")
            return arr[0]
        return x

    for grp in ("links", "origins", "dests"):
        for e in desc[grp]:
            for k in list(e):
                e[k] = fill(e[k])
    if desc.get("node_off"):
        desc["node_off"] = {k: fill(v) for k, v in desc["node_off"].items()}
    if desc.get("node_block"):
        desc["node_block"] = {k: fill(v) for k, v in desc["node_block"].items()}
    vals, nxt = {}, {}
    for eid, vs in valslots.items():
        d = {}
        for name, (si, n) in vs.items():
            arr = nums[si]
            if len(arr) != n:
                raise R.Inadmissible(f"{eid}.{name}: length {len(arr)} != {n}")
            d[name] = arr if (eid in {l['id'] for l in desc['links']}) else arr[0]
        if d:
            vals[eid] = d
    for eid, ns in nxtslots.items():
        d = {}
        for name, (si, n) in ns.items():
            arr = nums[si]
            if len(arr) != n:
                shapes_ok = False
                notes.append((eid, name, n, len(arr)))
                continue
            d[name] = arr if name in ("rho", "v") else arr[0]
        if d:
            nxt[eid] = d
    pars = {}
    for p, si in parslots.items():
        pars[p] = None if si is None else nums[si][0]
    ob.desc, ob.objmap, ob.vals, ob.nxt, ob.pars = desc, objmap, vals, nxt, pars
    ob.opts = {k: bool(step_kwargs.get(k, False)) for k in OPT_NEXT}
    ob.shapes_ok, ob.shape_notes = shapes_ok, notes
    return ob


def apply_declared(ob, declared_desc, built, rec=None):
    """The network the caller *described* is the specification: element kinds, flow-equation
    variants and parameters are taken from the description the driver built the objects from
    (matched by object identity), not from the live attributes, so that a constructor or a step
    that silently rewrites them cannot hide behind the extraction.  Differences are counted."""
    byobj = {}
    for did, o in built.elements.items():
        byobj[id(o)] = did
    dl = {l["id"]: l for l in declared_desc["links"]}
    do = {o["id"]: o for o in declared_desc["origins"]}
    dd = {d["id"]: d for d in declared_desc["dests"]}
    for grp, table, keys in (("links", dl, ("N", "lam", "L", "rho_max", "rho_crit", "v_free", "a", "beta", "vsl", "alpha")),
                             ("origins", do, ("kind", "C", "eq")), ("dests", dd, ("kind",))):
        for e in ob.desc[grp]:
            did = byobj.get(id(ob.objmap[e["id"]]))
            if did is None or did not in table:
                continue
            for k in keys:
                want = table[did].get(k)
                if k == "vsl" and want is not None:
                    # the constructor sorts what it is given; a list the caller edited in place afterwards is used as it stands
                    want = list(want) if table[did].get("vsl_live_order") else sorted(want)
                if e.get(k) != want:
                    if rec is not None:
                        rec.count("live_attribute_differs_from_declared")
                        rec.seen("live_attribute_differs_from_declared", (grp, k, repr(e.get(k))[:30], repr(want)[:30]))
                    e[k] = want
    return ob


def cur_shape(x):
    s = getattr(x, "shape", None)
    if s is None:
        return None
    try:
        return tuple(s)
    except TypeError:
        return None


# ---------------------------------------------------------------------------
# oracles


def close(a, b, mag, rel=1e-9):
    if math.isnan(a) or math.isnan(b):
        return False
    if a == b:
        return True
    return abs(a - b) <= rel * (1.0 + mag)


def admissible(ob):
    """Non-negative finite states/queues/demands, rates in [0,1], limits >= 0."""
    for l in ob.desc["links"]:
        s = ob.vals[l["id"]]
        for x in s["rho"] + s["v"]:
            if not math.isfinite(x) or x < 0:
                return False
        for x in s.get("v_ctrl", []):
            if math.isnan(x) or x < 0:
                return False
    for o in ob.desc["origins"]:
        if o["kind"] == "ideal":
            continue
        s = ob.vals[o["id"]]
        if not (math.isfinite(s["w"]) and s["w"] >= 0 and math.isfinite(s["d"]) and s["d"] >= 0):
            return False
        if "r" in s and not (0 <= s["r"] <= 1):
            return False
        if "q" in s and (math.isnan(s["q"]) or s["q"] < 0):
            return False
        if "v_ctrl" in s and (math.isnan(s["v_ctrl"]) or s["v_ctrl"] < 0):
            return False
    for d in ob.desc["dests"]:
        if d["kind"] == "cong":
            x = ob.vals[d["id"]]["d"]
            if not math.isfinite(x) or x < 0:
                return False
    for p in ("T", "tau", "eta", "kappa"):
        if ob.pars.get(p) is None or not math.isfinite(ob.pars[p]) or ob.pars[p] <= 0:
            return False
    return True


def node_mech(ob, lid, side="both"):
    """Structural description of where link `lid` sits (for mechanism keys)."""
    ins, outs, org, dst = R.topology(ob.desc)
    l = next(x for x in ob.desc["links"] if x["id"] == lid)
    up, dn = l["up"], l["down"]

    def c(n):
        return ">=2" if n >= 2 else str(n)

    a = f"up(n_in={c(len(ins[up]))},n_out={c(len(outs[up]))},origin={org[up]['kind'] if up in org else 'none'})"
    b = f"dn(n_out={c(len(outs[dn]))},dest={dst[dn]['kind'] if dn in dst else 'none'})"
    if side == "up":
        return a
    if side == "dn":
        return b
    if side == "none":
        return "interior"
    return a + " " + b


def compare_reference(ob, rec, prop, ref=None):
    """Reference comparison of every next state.  Returns the reference result (or
    None if skipped)."""
    try:
        ref = ref or R.ref_step(ob.desc, ob.vals, ob.pars, ob.opts)
    except R.Singular:
        rec.count("skipped_singular")
        return None
    except R.Inadmissible as e:
        rec.count("skipped_inadmissible")
        rec.seen("inadmissible_reasons", str(e))
        return None
    rec.count("ref_comparisons")
    links = {l["id"]: l for l in ob.desc["links"]}
    for eid, exp in ref.next.items():
        got = ob.nxt.get(eid)
        if got is None:
            rec.violation(f"{prop}:next-state-missing:{'link' if eid in links else 'origin'}",
                          witness(ob, eid, None, None))
            continue
        for name, e in exp.items():
            g = got.get(name)
            es = e if isinstance(e, list) else [e]
            gs = g if isinstance(g, list) else [g]
            ms = ref.mag[eid][name]
            ms = ms if isinstance(ms, list) else [ms]
            for i, (x, y, m) in enumerate(zip(es, gs, ms)):
                rec.count("scalars_compared")
                ok = close(x, y, m)
                if not ok and name == "v" and eid in links and i == len(es) - 1:
                    alt = ref.vdrop_alt.get(eid)
                    if alt is not None and close(alt, y, m):
                        ok = True
                        rec.count("lane_gain_alt_reading_accepted")
                if not ok:
                    if eid in links:
                        pos = "first" if i == 0 else ("last" if i == len(es) - 1 else "mid")
                        if len(es) == 1:
                            pos = "only"
                        if name == "rho":
                            side = "up" if pos in ("first", "only") else "none"
                        else:
                            side = {"first": "up", "last": "dn", "only": "both", "mid": "none"}[pos]
                        mech = f"{prop}:{ob.kind}:link.{name}+[{pos}] != reference; {node_mech(ob, eid, side)}"
                        if links[eid].get("vsl") is not None and name == "v":
                            mech += " vsl"
                    else:
                        o = next(t for t in ob.desc["origins"] if t["id"] == eid)
                        mech = f"{prop}:{ob.kind}:origin({o['kind']},{o['eq']}).{name}+ != reference"
                    rec.violation(mech, witness(ob, eid, (name, i, y, x), ref))
    return ref


def witness(ob, eid, diff, ref):
    w = {"engine": ob.kind, "desc": ob.desc, "vals": ob.vals, "pars": ob.pars,
         "opts": ob.opts, "element": eid, "observed_next": ob.nxt}
    if diff:
        w["differs"] = {"var": diff[0], "index": diff[1], "observed": diff[2], "expected": diff[3]}
    if ref is not None:
        w["expected_next"] = ref.next
    return w


def conservation(ob, rec, prop="C02"):
    """Vehicle balance at every node and network-wide from inputs and outputs only."""
    if any(ob.opts.values()):
        rec.count("skipped_clamped")
        return
    desc, vals, nxt = ob.desc, ob.vals, ob.nxt
    T = ob.pars["T"]
    ins, outs, org, dst = R.topology(desc)
    q = {l["id"]: [vals[l["id"]]["rho"][i] * vals[l["id"]]["v"][i] * l["lam"] for i in range(l["N"])]
         for l in desc["links"]}
    for l in desc["links"]:
        if l.get("user_cap") is not None:  # user-defined link kind: its flow is what its public get_flow says
            q[l["id"]] = [min(x, l["user_cap"]) for x in q[l["id"]]]
    allnum = True
    for eid, d in nxt.items():
        for v in d.values():
            for x in (v if isinstance(v, list) else [v]):
                if not math.isfinite(x):
                    allnum = False
    if not allnum:
        rec.count("skipped_nonfinite_output")
        return
    try:
        q0 = {}
        mag0 = {}
        for l in desc["links"]:
            lid = l["id"]
            k = l["lam"] * l["L"] / T
            q0[lid] = (nxt[lid]["rho"][0] - vals[lid]["rho"][0]) * k + q[lid][0]
            mag0[lid] = (abs(nxt[lid]["rho"][0]) + abs(vals[lid]["rho"][0])) * k + abs(q[lid][0])
        qo = {}
        mago = {}
        for o in desc["origins"]:
            oid = o["id"]
            if o["kind"] == "ideal":
                lk = outs[o["node"]][0]
                qo[oid] = q[lk["id"]][0] if o.get("user_q") is None else o["user_q"]
                mago[oid] = abs(qo[oid])
            else:
                qo[oid] = vals[oid]["d"] - (nxt[oid]["w"] - vals[oid]["w"]) / T
                mago[oid] = abs(vals[oid]["d"]) + (abs(nxt[oid]["w"]) + abs(vals[oid]["w"])) / T
    except (KeyError, IndexError):
        rec.count("skipped_incomplete_output")
        return

    def c(n):
        return ">=2" if n >= 2 else str(n)

    for n in desc["nodes"]:
        if not outs[n]:
            continue
        lhs = sum(q0[m["id"]] for m in outs[n])
        rhs = sum(q[m["id"]][-1] for m in ins[n])
        mag = sum(mag0[m["id"]] for m in outs[n]) + sum(abs(q[m["id"]][-1]) for m in ins[n])
        o = org.get(n)
        if o is not None:
            rhs += qo[o["id"]]
            mag += mago[o["id"]]
        rec.count("node_balances")
        rec.seen("node_classes", (c(len(ins[n])), c(len(outs[n])), o["kind"] if o else "-"))
        if not close(lhs, rhs, mag, rel=1e-8):
            mech = (f"{prop}:{ob.kind}:node(n_in={c(len(ins[n]))},n_out={c(len(outs[n]))},"
                    f"origin={o['kind'] if o else 'none'}): sum inflow of leaving links != "
                    f"sum last-segment flow of entering links + origin flow")
            rec.violation(mech, {"engine": ob.kind, "desc": desc, "vals": vals, "pars": ob.pars,
                                 "observed_next": nxt, "node": n, "sum_leaving_inflow": lhs,
                                 "sum_entering_plus_origin": rhs})
    # global balance
    before = sum(sum(vals[l["id"]]["rho"]) * l["lam"] * l["L"] for l in desc["links"])
    after = sum(sum(nxt[l["id"]]["rho"]) * l["lam"] * l["L"] for l in desc["links"])
    mag = abs(before) + abs(after)
    ext = 0.0
    for o in desc["origins"]:
        if o["kind"] == "ideal":
            ext += T * qo[o["id"]]
            mag += T * abs(qo[o["id"]])
        else:
            before += vals[o["id"]]["w"]
            after += nxt[o["id"]]["w"]
            ext += T * vals[o["id"]]["d"]
            mag += abs(vals[o["id"]]["w"]) + abs(nxt[o["id"]]["w"]) + T * abs(vals[o["id"]]["d"])
    for d in desc["dests"]:
        for m in ins[d["node"]]:
            ext -= T * q[m["id"]][-1]
            mag += T * abs(q[m["id"]][-1])
    rec.count("global_balances")
    if not close(after - before, ext, mag, rel=1e-9):
        rec.violation(f"{prop}:{ob.kind}:network-wide vehicle balance broken",
                      {"engine": ob.kind, "desc": desc, "vals": vals, "pars": ob.pars,
                       "observed_next": nxt, "delta_vehicles": after - before, "external": ext})


def finite_outputs(ob):
    bad = []
    for eid, d in ob.nxt.items():
        for name, v in d.items():
            for i, x in enumerate(v if isinstance(v, list) else [v]):
                if not math.isfinite(x):
                    bad.append((eid, name, i, x))
    return bad
