"""A compile case: one description stepped symbolically with the CasADi engine
(optionally with symbolic link/model parameters declared as function parameters) and
compiled with ``Engine.to_function``; plus its NumPy twin."""
import random

import numpy as np

from vf import compiled as C
from vf import desc as D
from vf import drive

MODEL_PARS = ("tau", "eta", "kappa", "delta", "phi", "T")
# names a user may give a network: none of them means anything to the model
ODD_NET_NAMES = ("A1", "I-80 east/2", "A13_(north)", "_spare", "ring__2", "", " ", "1", "net 3", "Zürich Nord", "F", "__", "a_#_b")


def candidate_params(desc, pars, geometry=False):
    """All (element id | '#', attribute) keys that may be made symbolic.  geometry: also the segment length and (where no lane-drop
    term compares lane counts) the number of lanes - a corridor template compiled once and re-used across sites."""
    c = []
    for l in desc["links"]:
        if geometry:
            c.append((l["id"], "L"))
            if pars.get("phi") is None:
                c.append((l["id"], "lam"))
        for a in ("rho_crit", "v_free", "a", "rho_max"):
            c.append((l["id"], a))
        if l.get("vsl"):
            c.append((l["id"], "alpha"))  # the compliance factor of a speed-limited link (calibrating driver compliance)
    for o in desc["origins"]:
        if o["kind"] in ("ramp", "simple"):
            c.append((o["id"], "C"))
    for p in MODEL_PARS:
        if pars.get(p) is not None:
            c.append(("#", p))
    return c


class CompileCase:
    def __init__(self, M, rng: random.Random, desc, pars, symtype, sym_keys=(), opts=None, ops=None,
                 own_symbols=True, extra_params=None, prestep=None, fixed_from=None, fixed_prob=0.0, stacked=False, reuse=None, named_scalars_prob=0.0, scaled_prob=0.0, restep_T=None, param_override=None, engine_factory=None):
        import casadi as cs

        NE, CE = drive.engines(M)
        if engine_factory is not None:  # a user-defined engine class (called with the symbol type)
            CE = engine_factory
        self.M, self.desc, self.pars, self.symtype = M, desc, pars, symtype
        self.opts = dict(opts or {})
        self.XX = getattr(cs, symtype)
        self.sym_keys = list(sym_keys)
        self.shared_inner_mapping, self.shared_inner_mapping_written = None, []
        self.parameters_modified_by_compile = None
        self.fixed = {}  # (element id, variable) -> number supplied instead of a symbol
        self.scaled = {}  # (element id, variable) -> (a, b): the step was given a + b * symbol
        self.tied = {}  # (element id, variable) -> n: the step was given repmat(u, n, 1) of one scalar MX symbol
        override = dict(param_override or {})
        self.parameters = {}
        self.pvalues = {}
        linkd = {l["id"]: l for l in desc["links"]}
        orgd = {o["id"]: o for o in desc["origins"]}
        spars = dict(pars)
        # the declared NAME of a parameter is the user's choice: mostly '<attr>_<element>', but the
        # first symbolic link parameter of each kind is sometimes called by the bare attribute name
        # ('rho_crit', 'a', 'v_free', 'C' - as the repository's tests and examples do)
        bare_ok = rng.random() < 0.45
        bare_used = set()
        self.param_name = {}  # (element id | '#', attribute) -> declared name
        # stacked: the symbolic element parameters are the entries of ONE vector symbol `p` declared as a
        # single parameter (`p = SX.sym("p", k)`, `Link(..., critical_density=p[0], ...)`, parameters={"p": p})
        stack = [k_ for k_ in self.sym_keys if k_[0] != "#"] if stacked else []
        pvec = self.XX.sym("p", len(stack)) if len(stack) >= 2 else None
        self.stacked = pvec is not None
        # ... or the other way round: symbols created one by one and handed over as ONE entry of `parameters`, their
        # concatenation (`parameters={"p": vertcat(rho_crit, a, v_free)}` - one function argument out of separate symbols)
        self.concatenated = pvec is not None and (stacked == "concat" or rng.random() < 0.4)
        if self.concatenated:
            singles = [self.XX.sym(f"{a_}_{e_}") for (e_, a_) in stack]
            pvec = cs.vertcat(*singles)
        for (eid, attr) in self.sym_keys:
            if pvec is not None and eid != "#":
                i_ = stack.index((eid, attr))
                override[(eid, attr)] = singles[i_] if self.concatenated else pvec[i_]
                self.param_name[(eid, attr)] = ("p", i_)
                if "p" not in self.parameters:
                    self.parameters["p"] = pvec
                    self.pvalues["p"] = [float((linkd.get(e_) or orgd.get(e_))[a_]) for (e_, a_) in stack]
                continue
            if eid == "#":
                name = attr
                s = self.XX.sym(name)
                spars[attr] = s
                val = pars[attr]
            else:
                name = f"{attr}_{eid}"
                if bare_ok and attr not in bare_used and attr not in pars:
                    name = attr
                    bare_used.add(attr)
                s = self.XX.sym(name)
                override[(eid, attr)] = s
                val = (linkd.get(eid) or orgd.get(eid))[attr]
            self.parameters[name] = s
            self.pvalues[name] = float(val)
            self.param_name[(eid, attr)] = name
        for k, v in (extra_params or {}).items():
            self.parameters[k] = self.XX.sym(k)
            self.pvalues[k] = float(v)
        if ops is None and rng.random() < 0.6:
            ops = D.random_ops(desc, rng)  # live enumeration order != description order
        # the network's own name is a free label too
        self.net_name = rng.choice(ODD_NET_NAMES) if rng.random() < 0.3 else None
        self.built = D.build(M, desc, ops, param_override=override, net_name=self.net_name, reuse=reuse)
        self.engine = CE(symtype)
        self.spars = spars
        kw = drive.step_pars(spars)
        # the objects may already have a past: an earlier complete step (own symbols, other
        # parameters/options), variables set up by hand with `el.init_vars` and never stepped, or a
        # first step that failed half-way (a model parameter forgotten)
        if prestep is None:
            prestep = rng.random() < 0.4
        self.prestep = bool(prestep) and rng.choice(("step", "step", "init_only", "failed_step"))
        if self.prestep == "step":
            try:
                self.built.net.step(engine=self.engine, **{k_: True for k_ in ("positive_init_density", "positive_next_speed") if rng.random() < 0.5}, **kw)
            except Exception:
                pass
        elif self.prestep == "init_only":
            for el in list(self.built.net.elements):
                if rng.random() < 0.7:
                    el.init_vars(engine=self.engine)
        elif self.prestep == "failed_step":
            try:
                self.built.net.step(engine=self.engine)  # no T, tau, ...: raises after the initialisation
            except Exception:
                pass
        self.via = drive.pick_via(rng, 0.2)
        if own_symbols:
            extra_ic = {}
            if rng.random() < 0.3:
                # one and the same (empty / partial) inner mapping handed to several elements - e.g.
                # `dict.fromkeys(links, {})`: every element still gets variables of its own
                shared = {}
                extra_ic = {"init_conditions": {el_: shared for el_ in self.built.links.values()}}
                self.shared_inner_mapping = shared
            drive.do_step(self.built.net, self.via, rng=rng, engine=self.engine, **extra_ic, **self.opts, **kw)
            self.shared_inner_mapping_written = sorted(map(str, self.shared_inner_mapping)) if extra_ic else []
        else:
            self.named_scalars = symtype == "SX" and rng.random() < named_scalars_prob
            ic, self.syms = drive.sym_init(M, self.built, symtype, shuffle_keys=(rng if rng.random() < 0.6 else None),
                                           named_scalars=(rng if self.named_scalars else None))
            # some controls / disturbances may be supplied as plain numbers (a fixed demand, a fixed
            # metering rate): they are then constants of the function, not arguments
            if fixed_from is not None and rng.random() < fixed_prob:
                lay = D.var_layout(desc)
                cands = [(eid, name) for eid, L in lay.items() for grp in ("actions", "disturbances") for name, n in L[grp] if n > 0]
                chosen = [c for c in cands if rng.random() < 0.4] or ([rng.choice(cands)] if cands else [])
                for eid, name in chosen:
                    x = fixed_from[eid][name]
                    xs = list(x) if isinstance(x, list) else [x]
                    if any(t != t or t in (float("inf"), float("-inf")) for t in xs):
                        continue
                    form = rng.choice(("float", "array", "DM")) if len(xs) == 1 else rng.choice(("array", "DM"))
                    num = float(xs[0]) if form == "float" else (np.array(xs, dtype=float) if form == "array" else cs.DM(xs))
                    ic[self.built.el(eid)][name] = num
                    self.fixed[(eid, name)] = x
            if rng.random() < scaled_prob:
                # controls / disturbances handed over as expressions of the user's own (normalised) symbols,
                # e.g. v_ctrl = 50 + 70 * u_n: the function's arguments are those symbols
                lay = D.var_layout(desc)
                for eid, L in lay.items():
                    for grp in ("actions", "disturbances"):
                        for name, n in L[grp]:
                            if n > 0 and (eid, name) not in self.fixed and rng.random() < 0.4:
                                a_, b_ = rng.choice((0.0, 5.0, 50.0)), rng.choice((0.5, 2.0, 70.0, 3000.0))
                                el_ = self.built.el(eid)
                                ic[el_][name] = a_ + b_ * ic[el_][name]
                                self.scaled[(eid, name)] = (a_, b_)
            if symtype == "MX" and rng.random() < scaled_prob:
                # coordinated signs: one scalar decision variable drives all the limits of a link (MX only; SX
                # has no such thing as a vector made of one symbol)
                lay = D.var_layout(desc)
                for eid, L in lay.items():
                    for name, n in L["actions"]:
                        if n >= 2 and (eid, name) not in self.fixed and (eid, name) not in self.scaled and rng.random() < 0.6:
                            u_ = self.XX.sym(f"u_all_{eid}")
                            ic[self.built.el(eid)][name] = cs.repmat(u_, n, 1)
                            self.tied[(eid, name)] = n
            drive.do_step(self.built.net, self.via, rng=rng, init_conditions=ic, engine=self.engine, **self.opts, **kw)
        self.order = C.live_order(self.built)
        if restep_T is not None and not any(k_ == ("#", "T") for k_ in self.sym_keys):
            # a second model over the same variables at another sampling time: the function of the first
            # step is built (same `parameters` dictionary, flow outputs on), then the dynamics are stepped
            # again through the element-level calls with the other T (Network.step would create new
            # variables), and everything later refers to that last step
            before_ = list(self.parameters.items())
            try:
                other0 = {k: v for k, v in self.spars.items() if v is not None and k not in self.parameters}
                self.engine.to_function(self.built.net, compact=rng.choice((0, 1, 2)), more_out=True,
                                        parameters=(self.parameters or None), **other0)
            except Exception:
                pass
            if [(k_, id(v_)) for k_, v_ in self.parameters.items()] != [(k_, id(v_)) for k_, v_ in before_]:
                self.parameters_modified_by_compile = sorted(set(map(str, self.parameters)) ^ set(k_ for k_, _v in before_)) or ["(order / values)"]
                self.parameters.clear()
                self.parameters.update(before_)
            self.pars = dict(self.pars, T=restep_T)
            self.spars = dict(self.spars, T=restep_T)
            nxt_opts = {k: v for k, v in self.opts.items() if k.startswith("positive_next")}
            drive.step_elements(self.built.net, rng.choice(drive.VIAS[1:]), engine=self.engine, rng=rng, only_init=[],
                                **nxt_opts, **drive.step_pars(self.spars))
            self.restepped = True
        if rng.random() < 0.2:
            # a what-if evaluation between the step and the compilation: `step_dynamics` is a pure method (it
            # returns the would-be next states, e.g. after a whole control interval) and stores nothing
            for o_ in self.built.origins.values():
                if o_._states and o_.states is not None:
                    try:
                        o_.step_dynamics(self.built.net, T=6 * pars["T"], engine=self.engine)
                    except Exception:
                        pass
        # the function may be requested from the stepping engine object, from another engine object of
        # the same symbol type, or from one of the other symbol type (the README idiom
        # `sym_metanet.engine.to_function(net, ...)` after the current engine was switched)
        r = rng.random()
        self.compile_engine_kind = "same object" if r < 0.7 else ("other object, same type" if r < 0.85 else "other symbol type")
        if self.compile_engine_kind == "same object":
            self.compile_engine = self.engine
        elif self.compile_engine_kind == "other object, same type":
            self.compile_engine = CE(symtype)
        else:
            self.compile_engine = CE("MX" if symtype == "SX" else "SX")

    def compile(self, compact, more_out, also_keywords=False):
        """also_keywords: declared symbolic model parameters (T, tau, ...) are ALSO passed as keyword
        arguments, as in the README (`to_function(net=net, parameters=..., T=T)`); only legal without
        flow outputs (with them the library itself refuses the duplicate keyword)."""
        other = {k: v for k, v in self.spars.items() if v is not None and (also_keywords or k not in self.parameters)}
        for k_, v_ in drive.splat_all_constants({}).items():
            if k_ not in self.parameters and k_ != "name":
                other.setdefault(k_, v_)
        # one settings dict splatted into both `net.step(**cfg)` and `to_function(net, **cfg)` (the repository's own tests do
        # that): the positivity switches ride along here as well, where they have nothing to act on - the function is that
        # of the step that was taken
        if D.FORMS["rng"] is not None and D.FORMS["rng"].random() < 0.35:
            for nm_ in ("positive_next_queue", "positive_next_speed", "positive_next_density", "positive_init_queue", "positive_init_density"):
                if D.FORMS["rng"].random() < 0.5:
                    other.setdefault(nm_, D.FORMS["rng"].choice((True, 1)))
            D.FORM_STATS["to_function: positivity switches riding along"] = D.FORM_STATS.get("to_function: positivity switches riding along", 0) + 1
        # the compactness level is documented by inequalities (<= 0, == 1, > 1): any integer of the class
        # asks for the same function
        level = compact
        if D.FORMS["rng"] is not None and D.FORMS["rng"].random() < 0.3:
            # (a plain flag is an integer too: True is level 1, False level 0)
            level = D.FORMS["rng"].choice({0: (0, -1, -4, False), 1: (1, True, True), 2: (2, 3, 7)}[min(max(compact, 0), 2)])
        pmap = self.parameters or None
        if pmap is None and D.FORMS["rng"] is not None and D.FORMS["rng"].random() < 0.3:
            # set-up code that collects `{name: sym for ... if symbolic}` and ends up with nothing symbolic: an EMPTY mapping
            import collections

            pmap = D.FORMS["rng"].choice((dict, collections.OrderedDict))()
            D.FORM_STATS["to_function: an empty parameters mapping"] = D.FORM_STATS.get("to_function: an empty parameters mapping", 0) + 1
        if pmap and D.FORMS["rng"] is not None and D.FORMS["rng"].random() < 0.25:
            # the declared parameters held in another kind of mapping (link and model parameters chained, a read-only view, ...)
            import collections
            import types

            items = list(pmap.items())
            cut = D.FORMS["rng"].randint(0, len(items))
            pmap = D.FORMS["rng"].choice((
                # (a ChainMap lists the keys of its LAST map first: the declared order is the mapping's own iteration order)
                lambda: collections.ChainMap(dict(items[cut:]), dict(items[:cut])) if 0 < cut < len(items) else collections.ChainMap(dict(items)),
                lambda: types.MappingProxyType(dict(items)),
                lambda: collections.UserDict(dict(items)),
                lambda: collections.OrderedDict(items)))()
            D.FORM_STATS["to_function: parameters held in " + type(pmap).__name__] = D.FORM_STATS.get("to_function: parameters held in " + type(pmap).__name__, 0) + 1
        assert not pmap or list(pmap) == list(self.parameters)
        vals = {"net": self.built.net, "compact": level, "more_out": more_out, "parameters": pmap}
        before = list(self.parameters.items())
        try:
            return D.callform(self.compile_engine.to_function, D.ORDER["to_function"], vals, 1, extra=other)
        finally:
            # the caller's mapping is the caller's: if the call changed it, that is recorded (the checks decide what it means for
            # their property) and undone, so that the harness goes on with what IT declared
            if [(k_, id(v_)) for k_, v_ in self.parameters.items()] != [(k_, id(v_)) for k_, v_ in before]:
                self.parameters_modified_by_compile = sorted(set(map(str, self.parameters)) ^ set(k_ for k_, _v in before)) or ["(order / values)"]
                self.parameters.clear()
                self.parameters.update(before)

    def effective(self, vals):
        """`vals` with the variables that were supplied as numbers set to those numbers."""
        if not self.fixed and not self.tied:
            return vals
        out = {k: dict(d) for k, d in vals.items()}
        for (eid, name), x in self.fixed.items():
            out[eid][name] = list(x) if isinstance(x, list) else x
        for (eid, name), n in self.tied.items():
            out[eid][name] = [out[eid][name][0]] * n
        return out

    def call(self, F, vals, compact, more_out, pvalues=None):
        pv = self.pvalues if pvalues is None else pvalues
        return C.call_positional(F, self.desc, self.order, self.effective(vals), compact, more_out,
                                 params=({k: pv[k] for k in self.parameters} if self.parameters else None),
                                 fixed=set(self.fixed), scaled=(self.scaled or None), tied=set(self.tied))


def call_by_name(case, F, vals, more_out, pvalues=None):
    """Level 0 evaluated BY NAME (`F(rho_L1=..., rho_crit=..., a=...)` / `F.call({...})`): every value is handed over under the
    documented name of the variable / the declared name of the parameter it belongs to.  None where the names are not
    unique or are not the function's (user-named symbols)."""
    pv = case.pvalues if pvalues is None else pvalues
    params = ({k: pv[k] for k in case.parameters} if case.parameters else None)
    args, _names, groups, byname = C.build_args(case.desc, case.order, case.effective(vals), 0, params, set(case.fixed), (case.scaled or None), set(case.tied))
    elname = {e["id"]: e["name"] for grp in ("links", "origins", "dests") for e in case.desc[grp]}
    documented = [f"{name}_{elname[eid]}" for grp in ("states", "actions", "disturbances") for eid, name, _v in groups[grp]] + list(params or {})
    if len(set(documented)) != len(documented) or len(documented) != len(args) or set(documented) != set(F.name_in()) or len(set(F.name_out())) != F.n_out():
        return None
    out = F.call(dict(zip(documented, args)))
    outs = [np.asarray(out[n_], dtype=float).ravel().tolist() for n_ in F.name_out()]
    return C.decode_outputs(outs, case.desc, case.order, groups, byname, 0, more_out)


def numpy_twin_next(M, desc, vals, pars, opts=None, ops=None, scalar_shape="vec1", int_dtype=False, param_override=None):
    NE, CE = drive.engines(M)
    built = D.build(M, desc, ops, param_override=param_override)
    built.net.step(init_conditions=drive.np_init(built, vals, scalar_shape, int_dtype=int_dtype), engine=NE(),
                   **(opts or {}), **drive.step_pars(pars))
    return drive.read_next(built), built


def random_opts(rng, p=0.25):
    names = ("positive_init_speed", "positive_init_density", "positive_init_queue",
             "positive_next_speed", "positive_next_density", "positive_next_queue")
    return {o: True for o in names if rng.random() < p}


class OwnSuccessors:
    """The library's OWN successors of a stepped network: the `next_states` expressions held by the
    elements, evaluated by the harness' own casadi.Function (not to_function).  Used where a check
    must decide *layout / bookkeeping* independently of whether the dynamics themselves are right."""

    def __init__(self, M, net, symtype, names_to_values):
        import random

        from vf import oracle as O

        self.next = {}
        symvals = O.SymVals(random.Random(0))
        for k, v in names_to_values.items():
            symvals.set(k, v)
        exprs, index = [], []
        for el in net.elements:
            if el.next_states:
                for name, e in el.next_states.items():
                    exprs.append(e)
                    index.append((el, name))
        nums, used = O.eval_exprs(exprs, symtype, symvals)
        self.by_object = {}
        for (el, name), v in zip(index, nums):
            self.by_object.setdefault(id(el), {})[name] = v
        def known(n):
            if n in names_to_values:
                return True
            base, _, k = n.rpartition("_")
            return k.isdigit() and base in names_to_values

        self.unknown_symbols = [u for u in used if not known(u)]


def own_successors(case, vals, pvalues=None):
    """{element id: {state name: [values]}} from the elements' own next_states expressions."""
    names = {e["id"]: e["name"] for grp in ("links", "origins", "dests") for e in case.desc[grp]}
    lay = D.var_layout(case.desc)
    table = {}
    for eid, L in lay.items():
        for grp in ("states", "actions", "disturbances"):
            for v, n in L[grp]:
                x = vals[eid][v]
                if (eid, v) in case.tied:  # the symbol is the one scalar that drives all entries
                    table[f"u_all_{eid}"] = (x[0] if isinstance(x, list) else x)
                    continue
                if (eid, v) in case.scaled:  # the symbol is the normalised quantity
                    a_, b_ = case.scaled[(eid, v)]
                    x = [(t_ - a_) / b_ for t_ in x] if isinstance(x, list) else (x - a_) / b_
                table[f"{v}_{names[eid]}"] = x
                table[f"{v}_{eid}"] = x
    pv = case.pvalues if pvalues is None else pvalues
    for k in case.parameters:
        table[k] = pv[k]
    own = OwnSuccessors(case.M, case.built.net, case.symtype, table)
    if own.unknown_symbols:
        raise ValueError(f"symbols without a registered value: {own.unknown_symbols[:4]}")
    out = {}
    for eid, el in case.built.elements.items():
        if id(el) in own.by_object:
            out[eid] = own.by_object[id(el)]
    return out
