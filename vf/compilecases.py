"""A compile case: one description stepped symbolically with the CasADi engine
(optionally with symbolic link/model parameters declared as function parameters) and
compiled with ``Engine.to_function``; plus its NumPy twin."""
import random

import numpy as np

from vf import compiled as C
from vf import desc as D
from vf import drive

MODEL_PARS = ("tau", "eta", "kappa", "delta", "phi", "T")


def candidate_params(desc, pars):
    """All (element id | '#', attribute) keys that may be made symbolic."""
    c = []
    for l in desc["links"]:
        for a in ("rho_crit", "v_free", "a"):
            c.append((l["id"], a))
    for o in desc["origins"]:
        if o["kind"] in ("ramp", "simple"):
            c.append((o["id"], "C"))
    for p in MODEL_PARS:
        if pars.get(p) is not None:
            c.append(("#", p))
    return c


class CompileCase:
    def __init__(self, M, rng: random.Random, desc, pars, symtype, sym_keys=(), opts=None, ops=None,
                 own_symbols=True, extra_params=None):
        import casadi as cs

        NE, CE = drive.engines(M)
        self.M, self.desc, self.pars, self.symtype = M, desc, pars, symtype
        self.opts = dict(opts or {})
        self.XX = getattr(cs, symtype)
        self.sym_keys = list(sym_keys)
        override = {}
        self.parameters = {}
        self.pvalues = {}
        linkd = {l["id"]: l for l in desc["links"]}
        orgd = {o["id"]: o for o in desc["origins"]}
        spars = dict(pars)
        for (eid, attr) in self.sym_keys:
            if eid == "#":
                name = attr
                s = self.XX.sym(name)
                spars[attr] = s
                val = pars[attr]
            else:
                name = f"{attr}_{eid}"
                s = self.XX.sym(name)
                override[(eid, attr)] = s
                val = (linkd.get(eid) or orgd.get(eid))[attr]
            self.parameters[name] = s
            self.pvalues[name] = float(val)
        for k, v in (extra_params or {}).items():
            self.parameters[k] = self.XX.sym(k)
            self.pvalues[k] = float(v)
        if ops is None and rng.random() < 0.6:
            ops = D.random_ops(desc, rng)  # live enumeration order != description order
        self.built = D.build(M, desc, ops, param_override=override)
        self.engine = CE(symtype)
        self.spars = spars
        kw = drive.step_pars(spars)
        if own_symbols:
            self.built.net.step(engine=self.engine, **self.opts, **kw)
        else:
            ic, self.syms = drive.sym_init(M, self.built, symtype)
            self.built.net.step(init_conditions=ic, engine=self.engine, **self.opts, **kw)
        self.order = C.live_order(self.built)

    def compile(self, compact, more_out, also_keywords=False):
        """also_keywords: declared symbolic model parameters (T, tau, ...) are ALSO passed as keyword
        arguments, as in the README (`to_function(net=net, parameters=..., T=T)`); only legal without
        flow outputs (with them the library itself refuses the duplicate keyword)."""
        other = {k: v for k, v in self.spars.items() if v is not None and (also_keywords or k not in self.parameters)}
        return self.engine.to_function(
            self.built.net, compact=compact, more_out=more_out,
            parameters=(self.parameters or None), **other)

    def call(self, F, vals, compact, more_out, pvalues=None):
        pv = self.pvalues if pvalues is None else pvalues
        return C.call_positional(F, self.desc, self.order, vals, compact, more_out,
                                 params=({k: pv[k] for k in self.parameters} if self.parameters else None))


def numpy_twin_next(M, desc, vals, pars, opts=None, ops=None, scalar_shape="vec1"):
    NE, CE = drive.engines(M)
    built = D.build(M, desc, ops)
    built.net.step(init_conditions=drive.np_init(built, vals, scalar_shape), engine=NE(),
                   **(opts or {}), **drive.step_pars(pars))
    return drive.read_next(built), built


def random_opts(rng, p=0.25):
    names = ("positive_init_speed", "positive_init_density", "positive_init_queue",
             "positive_next_speed", "positive_next_density", "positive_next_queue")
    return {o: True for o in names if rng.random() < p}
